package km

import (
	"go/constant"
	"go/token"
	"go/types"
	"strings"

	"golang.org/x/tools/go/ssa"
)

// Sem is the repository-specific semantic layer on top of the generic fact engine: it knows what the sealed
// gate, checkAuth, the admin predicates etc. look like in keymasterd and computes wrapper summaries for them.

const KMD = ModPath + "/cmd/keymasterd"

const (
	fnCheckAuth       = "(*" + KMD + ".RuntimeState).checkAuth"
	fnIfLocked        = "(*" + KMD + ".RuntimeState).sendFailureToClientIfLocked"
	fnIsAdminUser     = "(*" + KMD + ".RuntimeState).IsAdminUser"
	fnIsAdminUserU2F  = "(*" + KMD + ".RuntimeState).IsAdminUserAndU2F"
	fnIsAutoAdmin     = "(*" + KMD + ".RuntimeState).isAutomationAdmin"
	fnIsUnsealed      = "(*" + KMD + ".RuntimeState).isUnsealed"
	typRuntimeState   = KMD + ".RuntimeState"
	typAuthInfo       = KMD + ".authInfo"
	maxSummaryDepth   = 4
	maxProvenanceStep = 2000
)

type Sem struct {
	C *Ctx
	// memo
	retCases  map[*ssa.Function][]RetCase
	valRole   map[ssa.Value]int // 0 unknown/in progress, 1 no, 2 yes — keyed per role below
	roleMemo  map[roleKey]int
	paramMemo map[paramKey]int
	guarMemo  map[guarKey]int
}

type roleKey struct {
	v    ssa.Value
	role string
}
type paramKey struct {
	f    *ssa.Function
	idx  int
	role string
}
type guarKey struct {
	call ssa.Instruction
	prim string
	pol  string
}

func NewSem(c *Ctx) *Sem {
	return &Sem{C: c, retCases: map[*ssa.Function][]RetCase{}, roleMemo: map[roleKey]int{}, paramMemo: map[paramKey]int{}, guarMemo: map[guarKey]int{}}
}

// RetCase is one return statement of a function with the facts known there.
type RetCase struct {
	Ret     *ssa.Return
	State   DNF
	Results []ssa.Value // results with defer-spilled loads resolved to the values stored before rundefers
}

// ReturnValues resolves the "defer-spilled" form go/ssa uses in functions with defers
// (*r = v; rundefers; t = *r; return t) back to the stored values.
func ReturnValues(ret *ssa.Return) []ssa.Value {
	out := make([]ssa.Value, len(ret.Results))
	for i, rv := range ret.Results {
		out[i] = rv
		u, ok := rv.(*ssa.UnOp)
		if !ok || u.Op != token.MUL {
			continue
		}
		a, ok := u.X.(*ssa.Alloc)
		if !ok {
			continue
		}
		var last ssa.Value
		for _, in := range ret.Block().Instrs {
			if in == ssa.Instruction(u) {
				break
			}
			if st, ok := in.(*ssa.Store); ok && st.Addr == ssa.Value(a) {
				last = st.Val
			}
		}
		if last != nil {
			out[i] = last
		}
	}
	return out
}

func (s *Sem) RetCases(fn *ssa.Function) []RetCase {
	if rc, ok := s.retCases[fn]; ok {
		return rc
	}
	var out []RetCase
	st := s.C.F.States(fn)
	for _, b := range fn.Blocks {
		if len(b.Instrs) == 0 {
			continue
		}
		if r, ok := b.Instrs[len(b.Instrs)-1].(*ssa.Return); ok {
			if st[b] == nil {
				continue // unreachable
			}
			out = append(out, RetCase{r, st[b], ReturnValues(r)})
		}
	}
	s.retCases[fn] = out
	return out
}

// Nilness is nilness, exported.
func Nilness(v ssa.Value) int { return nilness(v) }

// nilness of a returned value as far as it can be told syntactically: +1 definitely non-nil, -1 definitely nil, 0 unknown
func nilness(v ssa.Value) int {
	switch x := v.(type) {
	case *ssa.Const:
		if x.Value == nil {
			return -1
		}
		return +1
	case *ssa.MakeInterface:
		return +1
	case *ssa.Alloc, *ssa.MakeMap, *ssa.MakeSlice, *ssa.MakeClosure, *ssa.Function:
		return +1
	case *ssa.Call:
		switch CalleeFull(x.Common()) {
		case "errors.New", "fmt.Errorf":
			return +1
		}
	case *ssa.ChangeType:
		return nilness(x.X)
	case *ssa.ChangeInterface:
		return nilness(x.X)
	case *ssa.UnOp:
		// a package-level sentinel such as `var errExpired = errors.New("...")`: every store to it anywhere in
		// its package stores a non-nil value
		if g, ok := x.X.(*ssa.Global); ok && x.Op == token.MUL {
			return globalNilness(g)
		}
	}
	return 0
}

var globalNilMemo = map[*ssa.Global]int{}

func globalNilness(g *ssa.Global) int {
	if r, ok := globalNilMemo[g]; ok {
		return r
	}
	globalNilMemo[g] = 0
	res, n := +1, 0
	if g.Pkg != nil {
		var scan func(f *ssa.Function)
		scan = func(f *ssa.Function) {
			for _, b := range f.Blocks {
				for _, in := range b.Instrs {
					if st, ok := in.(*ssa.Store); ok && st.Addr == ssa.Value(g) {
						n++
						if nilness(Unwrap(st.Val)) != +1 {
							res = 0
						}
					}
				}
			}
			for _, a := range f.AnonFuncs {
				scan(a)
			}
		}
		for _, m := range g.Pkg.Members {
			if f, ok := m.(*ssa.Function); ok {
				scan(f)
			}
		}
		if init := g.Pkg.Func("init"); init != nil {
			scan(init)
		}
	}
	if n == 0 {
		res = 0
	}
	globalNilMemo[g] = res
	return res
}

// callResult returns (call, index) if v is the result (or i-th result) of a call instruction.
func callResult(v ssa.Value) (*ssa.Call, int) {
	switch x := v.(type) {
	case *ssa.Call:
		return x, 0
	case *ssa.Extract:
		if c, ok := x.Tuple.(*ssa.Call); ok {
			return c, x.Index
		}
	}
	return nil, 0
}

// compatible reports whether return case rc of the callee can be the one taken given the caller's fact f about
// result idx of the call; if it can, it returns the callee-side fact to conjoin (or nil).
func (s *Sem) compatible(rc RetCase, idx int, f Fact) (bool, *Fact) {
	if idx >= len(rc.Results) {
		return true, nil
	}
	rv := s.C.F.Canon(rc.Results[idx])
	if f.Op == token.ILLEGAL { // boolean result
		if c, ok := rv.(*ssa.Const); ok && c.Value != nil && c.Value.Kind() == constant.Bool {
			return constant.BoolVal(c.Value) == f.Pol, nil
		}
		nf := Fact{X: rv, Pol: f.Pol}
		// decompose conditions like !x or a==b
		cf := s.C.F.CondFacts(rv, f.Pol)
		if len(cf) == 1 {
			nf = cf[0]
		}
		return true, &nf
	}
	if (f.Op == token.EQL || f.Op == token.NEQ) && IsNilConst(f.Y) {
		n := nilness(rv)
		wantNil := f.Op == token.EQL
		if n == -1 {
			return wantNil, nil
		}
		if n == +1 {
			return !wantNil, nil
		}
		nf := Fact{Op: f.Op, X: rv, Y: s.C.F.Canon(f.Y)}
		return true, &nf
	}
	if c, ok := f.Y.(*ssa.Const); ok {
		if rc2, ok := rv.(*ssa.Const); ok && (f.Op == token.EQL || f.Op == token.NEQ) {
			eq := constEqual(c, rc2)
			return eq == (f.Op == token.EQL), nil
		}
	}
	return true, nil
}

// Prim is a primitive proposition that may be established directly by a fact, or by a callee on the returns
// compatible with the caller's facts about its results.
type Prim struct {
	Name   string
	Direct func(f Fact) bool
	// Rel, when set, is tried as well: it sees a fact together with a resolver that maps values of the frame the
	// fact lives in to the frame Holds was asked in (a callee's parameters become the call's arguments), so a
	// proposition about a caller's value can be established inside a helper the value was passed to.
	Rel func(f Fact, resolve func(ssa.Value) ssa.Value) bool
}

// Holds: conjunction k (facts of function context) establishes p.
func (s *Sem) Holds(k Conj, p Prim) bool {
	// a named boolean (x := a && b) that is known on this path says what its operand says
	return s.holds(s.saturateBool(k), p, 0, func(v ssa.Value) ssa.Value { return Unwrap(v) })
}

func (s *Sem) holds(k Conj, p Prim, depth int, resolve func(ssa.Value) ssa.Value) bool {
	for _, f := range k.List() {
		if p.Direct != nil && p.Direct(f) {
			return true
		}
		if p.Rel != nil && p.Rel(f, resolve) {
			return true
		}
	}
	if depth >= maxSummaryDepth {
		return false
	}
	// via callee guarantees: group the facts about results of each call
	byCall := map[*ssa.Call][]struct {
		idx int
		f   Fact
	}{}
	for _, f := range k.List() {
		if c, idx := callResult(f.X); c != nil {
			if g := StaticCallee(c.Common()); g != nil && g.Blocks != nil && s.C.inModule(g) {
				byCall[c] = append(byCall[c], struct {
					idx int
					f   Fact
				}{idx, f})
			}
		}
	}
	for c, fs := range byCall {
		g := unwrapSynthetic(StaticCallee(c.Common()))
		if g.Blocks == nil {
			continue
		}
		ok := true
		any := false
		inner := resolve
		if p.Rel != nil {
			args := CallArgs(c.Common())
			params := g.Params
			outer := resolve
			inner = func(v ssa.Value) ssa.Value {
				v = Unwrap(v)
				if pp, isP := v.(*ssa.Parameter); isP {
					for i, q := range params {
						if q == pp && i < len(args) {
							return outer(args[i])
						}
					}
				}
				return v
			}
		}
		for _, rc := range s.RetCases(g) {
			comp := true
			var extra []Fact
			for _, cf := range fs {
				cok, nf := s.compatible(rc, cf.idx, cf.f)
				if !cok {
					comp = false
					break
				}
				if nf != nil {
					extra = append(extra, *nf)
				}
			}
			if !comp {
				continue
			}
			for _, d := range rc.State {
				feasible := true
				for _, e := range extra {
					if contradicts(d, e) {
						feasible = false
						break
					}
				}
				if !feasible {
					continue
				}
				any = true
				dd := d
				if len(extra) > 0 {
					for _, e := range extra {
						dd = dd.With(e)
					}
				}
				dd = s.saturateBool(dd)
				if !s.holds(dd, p, depth+1, inner) {
					ok = false
					break
				}
			}
			if !ok {
				break
			}
		}
		if ok && any {
			return true
		}
	}
	return false
}

// SaturateBool is saturateBool for rules that read the facts of a conjunction themselves.
func (s *Sem) SaturateBool(k Conj) Conj { return s.saturateBool(k) }

// saturateBool: where a merged boolean is known (true or false) on this path and the path also says which
// operand it is (the provenance fact phi == operand), the operand has that truth value too - and when the operand
// is a comparison, so have its comparison facts.
func (s *Sem) saturateBool(k Conj) Conj {
	out := k
	for _, f := range k.List() {
		if f.Op != token.ILLEGAL {
			continue
		}
		for _, g := range k.List() {
			if g.Op != token.EQL || g.X != f.X || g.Y == nil {
				continue
			}
			if _, isC := g.Y.(*ssa.Const); isC {
				continue
			}
			for _, nf := range s.C.F.CondFacts(g.Y, f.Pol) {
				if !contradicts(out, nf) {
					out = out.With(nf)
				}
			}
		}
		// x := a && b known to be true (or x := a || b known to be false): every operand of the merge but one is
		// the constant that would make it false (true), so the remaining operand has the known value whichever
		// way the path came
		if phi, isPhi := f.X.(*ssa.Phi); isPhi {
			var rest []ssa.Value
			for _, e := range phi.Edges {
				if c, isC := e.(*ssa.Const); isC && c.Value != nil && c.Value.Kind() == constant.Bool && constant.BoolVal(c.Value) != f.Pol {
					continue
				}
				rest = append(rest, e)
			}
			if len(rest) == 1 {
				if _, isC := rest[0].(*ssa.Const); !isC {
					for _, nf := range s.C.F.CondFacts(rest[0], f.Pol) {
						if !contradicts(out, nf) {
							out = out.With(nf)
						}
					}
				}
			}
		}
	}
	return out
}

// TrueFacts returns k extended with what follows from the boolean value v being true on this path: the
// comparison facts of v itself, or - for a value merged by && / || - those of the operand the provenance fact of
// this path names. ok is false when k says v is false here (the path is a refusal).
func (s *Sem) TrueFacts(k Conj, v ssa.Value) (Conj, bool) {
	v = Unwrap(v)
	for depth := 0; depth < 4; depth++ {
		if c, isC := v.(*ssa.Const); isC {
			if c.Value != nil && c.Value.Kind() == constant.Bool && !constant.BoolVal(c.Value) {
				return k, false
			}
			return k, true
		}
		if k.Has(Fact{X: v, Pol: false}) {
			return k, false
		}
		if phi, isPhi := v.(*ssa.Phi); isPhi {
			next := ssa.Value(nil)
			for _, f := range k.List() {
				if f.Op == token.EQL && f.X == ssa.Value(phi) && f.Y != nil {
					next = f.Y
				}
			}
			if next == nil {
				// x && y: every operand but one is the constant false, so the merged value is true only if that
				// one operand is
				var nonFalse []ssa.Value
				for _, e := range phi.Edges {
					if c, isC := e.(*ssa.Const); isC && c.Value != nil && c.Value.Kind() == constant.Bool && !constant.BoolVal(c.Value) {
						continue
					}
					nonFalse = append(nonFalse, e)
				}
				k = k.With(Fact{X: v, Pol: true})
				if len(nonFalse) == 1 {
					if _, isC := nonFalse[0].(*ssa.Const); !isC {
						v = Unwrap(nonFalse[0])
						continue
					}
				}
				return k, true
			}
			v = Unwrap(next)
			continue
		}
		for _, f := range s.C.F.CondFacts(v, true) {
			if contradicts(k, f) {
				return k, false
			}
			k = k.With(f)
		}
		return k, true
	}
	return k, true
}

// ResultCase is one way a module function can have produced the value a caller holds: the returned value in
// the callee's frame together with the facts of one disjunct at that return.
type ResultCase struct {
	Fn  *ssa.Function
	Ret *ssa.Return
	Val ssa.Value
	K   Conj
	// All: every result of that return (Val is All[i] for the i asked about)
	All []ssa.Value
}

// CellOrigin: the value a local variable cell holds when it is stored exactly once (a struct kept in a variable
// so that its fields can be addressed is the value that was stored).
func CellOrigin(v ssa.Value) ssa.Value {
	v = Unwrap(v)
	for i := 0; i < 4; i++ {
		var cell *ssa.Alloc
		switch x := v.(type) {
		case *ssa.Alloc:
			cell = x
		case *ssa.UnOp:
			if a, ok := x.X.(*ssa.Alloc); ok && x.Op == token.MUL {
				cell = a
			}
		}
		if cell == nil {
			// a field of a local record that never leaves the function and whose field is assigned exactly once
			// (values that travel together kept in one struct variable): the value that was assigned
			if fv, ok := localRecordField(v); ok {
				v = Unwrap(fv)
				continue
			}
			return v
		}
		var stored ssa.Value
		n := 0
		for _, ref := range *cell.Referrers() {
			if st, ok := ref.(*ssa.Store); ok && st.Addr == ssa.Value(cell) {
				// a result cell stored back into itself (`return named, results` next to a defer) is not a second
				// origin
				if ld, isLd := st.Val.(*ssa.UnOp); isLd && ld.X == ssa.Value(cell) {
					continue
				}
				stored, n = st.Val, n+1
			}
		}
		if n != 1 {
			return v
		}
		v = Unwrap(stored)
	}
	return v
}

// Leaf is where a value ultimately comes from when helper returns are followed: the value in the frame of the
// function that produced it, the facts of every frame on the way (unioned), and that frame's return.
type Leaf struct {
	Val ssa.Value
	K   Conj
	Fn  *ssa.Function
	Ret *ssa.Return
}

// Leaves follows v through the returns of module helpers (ResultCases) up to depth levels; stop(call) keeps a
// call result as a leaf (used for the calls a rule wants to see itself).
func (s *Sem) Leaves(k Conj, fn *ssa.Function, ret *ssa.Return, v ssa.Value, stop func(*ssa.Call) bool, depth int) []Leaf {
	v = Unwrap(v)
	// a field of the struct a helper handed back: the value the helper stored into that field, per return
	if base, field, ok := FieldOfLoad(v); ok && depth > 0 {
		b := CellOrigin(base)
		if u, isU := b.(*ssa.UnOp); isU && u.Op == token.MUL {
			b = CellOrigin(u.X)
		}
		if call, _ := callResult(b); call != nil && (stop == nil || !stop(call)) {
			if cases, isCall := s.ResultCases(k, b); isCall && len(cases) > 0 {
				var out []Leaf
				resolved := true
				for _, rc := range cases {
					rv := Unwrap(rc.Val)
					if c, isC := rv.(*ssa.Const); isC && isZeroConst(c) {
						continue // the caller's facts (result != nil) exclude it, or the field is never read
					}
					var cell *ssa.Alloc
					switch x := rv.(type) {
					case *ssa.Alloc:
						cell = x
					case *ssa.UnOp:
						cell, _ = x.X.(*ssa.Alloc)
					}
					if cell == nil {
						resolved = false
						break
					}
					kk := k
					for _, f := range rc.K.List() {
						kk = kk.With(f)
					}
					m := 0
					for _, ref := range *cell.Referrers() {
						fa, isFA := ref.(*ssa.FieldAddr)
						if !isFA || fieldName(fa.X.Type(), fa.Field) != field {
							continue
						}
						for _, r2 := range *fa.Referrers() {
							if st, isSt := r2.(*ssa.Store); isSt && st.Addr == ssa.Value(fa) {
								m++
								out = append(out, s.Leaves(kk, rc.Fn, rc.Ret, st.Val, stop, depth-1)...)
							}
						}
					}
					if m == 0 {
						resolved = false
						break
					}
				}
				if resolved && len(out) > 0 {
					return out
				}
			}
		}
	}
	if cl, _ := callResult(v); cl != nil && depth > 0 && (stop == nil || !stop(cl)) {
		if cases, ok := s.ResultCases(k, v); ok && len(cases) > 0 {
			var out []Leaf
			for _, rc := range cases {
				kk := k
				for _, f := range rc.K.List() {
					kk = kk.With(f)
				}
				out = append(out, s.Leaves(kk, rc.Fn, rc.Ret, rc.Val, stop, depth-1)...)
			}
			return out
		}
	}
	return []Leaf{{v, k, fn, ret}}
}

// ResultCases enumerates, for v = the i-th result of a call to a module function, the (return, disjunct) pairs
// of the callee that are compatible with what conjunction k of the caller says about the call's results
// (for instance err == nil). ok is false when v is not such a call result.
func (s *Sem) ResultCases(k Conj, v ssa.Value) (cases []ResultCase, ok bool) {
	call, idx := callResult(Unwrap(v))
	if call == nil {
		return nil, false
	}
	g := StaticCallee(call.Common())
	if g == nil {
		return nil, false
	}
	g = unwrapSynthetic(g)
	if g.Blocks == nil || !s.C.inModule(g) {
		return nil, false
	}
	var fs []struct {
		idx int
		f   Fact
	}
	for _, f := range k.List() {
		if c2, i2 := callResult(f.X); c2 == call {
			fs = append(fs, struct {
				idx int
				f   Fact
			}{i2, f})
		}
	}
	for _, rc := range s.RetCases(g) {
		if idx >= len(rc.Results) {
			continue
		}
		comp := true
		var extra []Fact
		for _, cf := range fs {
			cok, nf := s.compatible(rc, cf.idx, cf.f)
			if !cok {
				comp = false
				break
			}
			if nf != nil {
				extra = append(extra, *nf)
			}
		}
		if !comp {
			continue
		}
		for _, d := range rc.State {
			feasible := true
			for _, e := range extra {
				if contradicts(d, e) {
					feasible = false
					break
				}
			}
			if !feasible {
				continue
			}
			dd := d
			for _, e := range extra {
				dd = dd.With(e)
			}
			cases = append(cases, ResultCase{Fn: g, Ret: rc.Ret, Val: rc.Results[idx], K: dd, All: rc.Results})
		}
	}
	return cases, true
}

// Augment returns k extended with the facts that every compatible return of a called helper guarantees about
// the helper's parameters, rewritten to the arguments of the call: after `if err := check(d); err != nil
// { return }` the conjunction on the continuing path gains what check's nil-returns all know about d.
// Only facts whose operands are parameters or constants are carried over.
func (s *Sem) Augment(k Conj) Conj {
	calls := map[*ssa.Call]bool{}
	var order []*ssa.Call
	for _, f := range k.List() {
		if c, _ := callResult(f.X); c != nil && !calls[c] {
			calls[c] = true
			order = append(order, c)
		}
	}
	out := k
	for _, c := range order {
		g := StaticCallee(c.Common())
		if g == nil {
			continue
		}
		g = unwrapSynthetic(g)
		if g.Blocks == nil || !s.C.inModule(g) {
			continue
		}
		cases, ok := s.ResultCases(k, c)
		if !ok || len(cases) == 0 {
			continue
		}
		args := CallArgs(c.Common())
		translate := func(v ssa.Value) (ssa.Value, bool) {
			v = Unwrap(v)
			switch x := v.(type) {
			case *ssa.Const:
				return s.C.F.Canon(x), true
			case *ssa.Parameter:
				for i, q := range g.Params {
					if q == x && i < len(args) {
						return s.C.F.Canon(Unwrap(args[i])), true
					}
				}
			}
			return nil, false
		}
		var common map[Fact]bool
		for _, rc := range cases {
			cur := map[Fact]bool{}
			for _, f := range rc.K.List() {
				if f.Op == token.ILLEGAL || f.Y == nil {
					continue
				}
				x, okx := translate(f.X)
				y, oky := translate(f.Y)
				if !okx || !oky {
					continue
				}
				if _, isC := x.(*ssa.Const); isC {
					if _, isC2 := y.(*ssa.Const); isC2 {
						continue
					}
				}
				cur[Fact{Op: f.Op, X: x, Y: y}] = true
			}
			if common == nil {
				common = cur
			} else {
				for f := range common {
					if !cur[f] {
						delete(common, f)
					}
				}
			}
		}
		for f := range common {
			out = out.With(f)
		}
	}
	return out
}

func (c *Ctx) inModule(f *ssa.Function) bool {
	return f.Pkg != nil && strings.HasPrefix(f.Pkg.Pkg.Path(), ModPath)
}

// HoldsAt: every disjunct of the state at the instruction establishes p.
func (s *Sem) HoldsAt(in ssa.Instruction, p Prim) bool {
	st := s.C.F.At(in)
	if st == nil {
		return true // unreachable code
	}
	return st.All(func(k Conj) bool { return s.Holds(k, p) })
}

// ---------------------------------------------------------------------------------------------
// Primitive propositions of keymasterd

// isSignerLoad: v is a load of <RuntimeState>.Signer
func isSignerLoad(v ssa.Value) bool {
	x, f, ok := FieldOfLoad(v)
	return ok && f == "Signer" && NamedTypeOf(x.Type()) == typRuntimeState
}

// PrimUnsealed: the sealed gate has been passed (Signer seen non-nil).
func (s *Sem) PrimUnsealed() Prim {
	return Prim{Name: "Unsealed", Direct: func(f Fact) bool {
		if f.Op == token.ILLEGAL {
			if c, _ := callResult(f.X); c != nil {
				switch CalleeFull(c.Common()) {
				case fnIfLocked:
					return !f.Pol
				case fnIsUnsealed:
					return f.Pol
				}
			}
			return false
		}
		if f.Op == token.NEQ && IsNilConst(f.Y) && isSignerLoad(f.X) {
			return true
		}
		return false
	}}
}

// PrimAuthed: checkAuth returned err == nil on this path.
func (s *Sem) PrimAuthed() Prim {
	return Prim{Name: "Authed", Direct: func(f Fact) bool {
		if f.Op == token.EQL && IsNilConst(f.Y) {
			if c, idx := callResult(f.X); c != nil && idx == 1 && CalleeFull(c.Common()) == fnCheckAuth {
				return true
			}
		}
		return false
	}}
}

// PrimCall: a bool-returning call to callee had result pol, and argument argIdx (counting the receiver as 0)
// satisfies argOK (nil = any).
func (s *Sem) PrimCall(name, callee string, pol bool, argIdx int, argOK func(ssa.Value) bool) Prim {
	return Prim{Name: name, Direct: func(f Fact) bool {
		if f.Op != token.ILLEGAL || f.Pol != pol {
			return false
		}
		c, idx := callResult(f.X)
		if c == nil || idx != 0 || CalleeFull(c.Common()) != callee {
			return false
		}
		if argOK == nil {
			return true
		}
		args := CallArgs(c.Common())
		return argIdx < len(args) && argOK(args[argIdx])
	}}
}

// PrimMethod: r.Method == m holds (or != for pol=false)
func (s *Sem) PrimMethod(m string) Prim {
	return Prim{Name: "Method" + m, Direct: func(f Fact) bool {
		if f.Op != token.EQL {
			return false
		}
		if cs, ok := ConstString(f.Y); !ok || cs != m {
			return false
		}
		x, fld, ok := FieldOfLoad(f.X)
		return ok && fld == "Method" && NamedTypeOf(x.Type()) == "net/http.Request"
	}}
}

// ---------------------------------------------------------------------------------------------
// Value roles: which SSA values denote the authenticated credential, its user name and its level.

const (
	RoleAuthInfo  = "authinfo"
	RoleAuthUser  = "authuser"
	RoleAuthLevel = "authlevel"
)

// Is reports whether value v has the given role (derived from a checkAuth result through field loads, wrapper
// results, phis of such values, or parameters that receive such values at every call site).
func (s *Sem) Is(v ssa.Value, role string) bool {
	v = Unwrap(v)
	key := roleKey{v, role}
	if r, ok := s.roleMemo[key]; ok {
		return r == 2
	}
	s.roleMemo[key] = 1 // in progress => no (cycles through phis resolve to the other operands)
	res := s.is(v, role)
	if res {
		s.roleMemo[key] = 2
	}
	return res
}

// fieldOfResultHasRole: base is the struct (or pointer to struct) a module helper handed back; in every return
// of the helper that yields one, the field was filled with a value of the role. This is how a helper that
// returns {Username, AuthLevel, ...} in one value carries the authenticated user to its callers.
func (s *Sem) fieldOfResultHasRole(base ssa.Value, field, role string) bool {
	base = Unwrap(base)
	if u, ok := base.(*ssa.UnOp); ok && u.Op == token.MUL {
		if a, isA := u.X.(*ssa.Alloc); isA {
			// a local copy of the result
			var stored ssa.Value
			n := 0
			for _, ref := range *a.Referrers() {
				if st, ok := ref.(*ssa.Store); ok && st.Addr == ssa.Value(a) {
					stored, n = st.Val, n+1
				}
			}
			if n != 1 {
				return false
			}
			base = Unwrap(stored)
		} else {
			base = Unwrap(u.X)
		}
	}
	call, idx := callResult(base)
	if call == nil {
		return false
	}
	g := StaticCallee(call.Common())
	if g == nil {
		return false
	}
	g = unwrapSynthetic(g)
	if g.Blocks == nil || !s.C.inModule(g) {
		return false
	}
	n := 0
	for _, rc := range s.RetCases(g) {
		if idx >= len(rc.Results) {
			return false
		}
		rv := Unwrap(rc.Results[idx])
		if c, ok := rv.(*ssa.Const); ok && isZeroConst(c) {
			continue
		}
		var cell *ssa.Alloc
		switch x := rv.(type) {
		case *ssa.Alloc:
			cell = x
		case *ssa.UnOp:
			cell, _ = x.X.(*ssa.Alloc)
		}
		if cell == nil {
			return false
		}
		m := 0
		for _, ref := range *cell.Referrers() {
			fa, ok := ref.(*ssa.FieldAddr)
			if !ok || fieldName(fa.X.Type(), fa.Field) != field {
				continue
			}
			for _, r2 := range *fa.Referrers() {
				if st, ok := r2.(*ssa.Store); ok && st.Addr == ssa.Value(fa) {
					m++
					if !s.Is(st.Val, role) {
						return false
					}
				}
			}
		}
		if m == 0 {
			return false
		}
		n++
	}
	return n > 0
}

func (s *Sem) is(v ssa.Value, role string) bool {
	switch x := v.(type) {
	case *ssa.Phi:
		// every non-zero-constant edge must have the role; at least one must
		n := 0
		for _, e := range x.Edges {
			e = Unwrap(e)
			if c, ok := e.(*ssa.Const); ok && isZeroConst(c) {
				continue
			}
			if e == v {
				continue
			}
			if !s.Is(e, role) {
				return false
			}
			n++
		}
		return n > 0
	case *ssa.Extract:
		c, ok := x.Tuple.(*ssa.Call)
		if !ok {
			return false
		}
		if CalleeFull(c.Common()) == fnCheckAuth {
			return role == RoleAuthInfo && x.Index == 0
		}
		return s.resultHasRole(c, x.Index, role)
	case *ssa.Call:
		if x.Call.Signature().Results().Len() == 1 {
			return s.resultHasRole(x, 0, role)
		}
	case *ssa.UnOp:
		if x.Op == token.MUL {
			if base, f, ok := FieldOfLoad(x); ok {
				if role == RoleAuthUser && f == "Username" && s.Is(base, RoleAuthInfo) {
					return true
				}
				if role == RoleAuthLevel && f == "AuthType" && s.Is(base, RoleAuthInfo) {
					return true
				}
				if s.fieldOfResultHasRole(base, f, role) {
					return true
				}
				return s.newTypeFieldHasRole(base.Type(), f, role)
			}
			// load of a local variable cell: all stores must have the role
			if a, ok := x.X.(*ssa.Alloc); ok {
				return s.allocStoresHaveRole(a, role)
			}
		}
	case *ssa.Field:
		if base, f, ok := FieldOfLoad(x); ok {
			if role == RoleAuthUser && f == "Username" && s.Is(base, RoleAuthInfo) {
				return true
			}
			if role == RoleAuthLevel && f == "AuthType" && s.Is(base, RoleAuthInfo) {
				return true
			}
			if s.fieldOfResultHasRole(base, f, role) {
				return true
			}
			return s.newTypeFieldHasRole(base.Type(), f, role)
		}
	case *ssa.Parameter:
		return s.paramHasRole(x, role)
	case *ssa.FreeVar:
		// closure: look at the binding in the MakeClosure sites
		fn := x.Parent()
		idx := -1
		for i, fv := range fn.FreeVars {
			if fv == x {
				idx = i
			}
		}
		sites := s.C.G.Callers[fn]
		if idx < 0 || len(sites) == 0 {
			return false
		}
		for _, cs := range sites {
			mc, ok := cs.Instr.(*ssa.MakeClosure)
			if !ok || idx >= len(mc.Bindings) {
				return false
			}
			b := mc.Bindings[idx]
			// binding is usually the address of the captured variable
			if a, ok := b.(*ssa.Alloc); ok {
				if !s.allocStoresHaveRole(a, role) {
					return false
				}
				continue
			}
			if !s.Is(b, role) {
				return false
			}
		}
		return true
	}
	return false
}

func isZeroConst(c *ssa.Const) bool {
	if c.Value == nil {
		return true
	}
	switch c.Value.Kind() {
	case constant.String:
		return constant.StringVal(c.Value) == ""
	case constant.Int:
		i, ok := constant.Int64Val(c.Value)
		return ok && i == 0
	case constant.Bool:
		return !constant.BoolVal(c.Value)
	}
	return false
}

func (s *Sem) allocStoresHaveRole(a *ssa.Alloc, role string) bool {
	n := 0
	for _, ref := range *a.Referrers() {
		if st, ok := ref.(*ssa.Store); ok && st.Addr == a {
			if c, ok := Unwrap(st.Val).(*ssa.Const); ok && isZeroConst(c) {
				continue
			}
			if !s.Is(st.Val, role) {
				return false
			}
			n++
		}
	}
	return n > 0
}

// resultHasRole: result idx of the call has the role on every return of the (module) callee where that result is
// not a zero constant.
func (s *Sem) resultHasRole(c *ssa.Call, idx int, role string) bool {
	g := StaticCallee(c.Common())
	if g == nil {
		return false
	}
	g = unwrapSynthetic(g)
	if g.Blocks == nil || !s.C.inModule(g) {
		return false
	}
	n := 0
	for _, rc := range s.RetCases(g) {
		if idx >= len(rc.Results) {
			return false
		}
		rv := Unwrap(rc.Results[idx])
		if k, ok := rv.(*ssa.Const); ok && isZeroConst(k) {
			continue
		}
		if !s.Is(rv, role) {
			return false
		}
		n++
	}
	return n > 0
}

func (s *Sem) paramHasRole(p *ssa.Parameter, role string) bool {
	fn := p.Parent()
	idx := -1
	for i, q := range fn.Params {
		if q == p {
			idx = i
		}
	}
	if idx < 0 {
		return false
	}
	key := paramKey{fn, idx, role}
	if r, ok := s.paramMemo[key]; ok {
		return r == 2
	}
	s.paramMemo[key] = 1
	sites := s.C.G.Callers[fn]
	if len(sites) == 0 || len(s.C.G.AddrTaken[fn]) > 0 {
		return false
	}
	for _, cs := range sites {
		ci, ok := cs.Instr.(ssa.CallInstruction)
		if !ok {
			return false
		}
		args := CallArgs(ci.Common())
		// static method call: Args already include the receiver
		if idx >= len(args) {
			return false
		}
		if !s.Is(args[idx], role) {
			return false
		}
	}
	s.paramMemo[key] = 2
	return true
}

// ---------------------------------------------------------------------------------------------
// Interprocedural obligation checking: does predicate `holds` (over a function-local state) hold at `site`,
// either locally or - failing that - at every call site of the enclosing function (transitively, bounded)?

type SitePred func(st DNF, at ssa.Instruction) bool

// HoldsOnAllPaths checks pred at the site; if it does not hold locally it requires it at every caller of the
// enclosing function (up to depth), where roots (functions in `roots`) and functions without callers fail.
// It returns ok and, when not ok, a description of the offending path.
func (s *Sem) HoldsOnAllPaths(site ssa.Instruction, pred SitePred, roots map[*ssa.Function]bool, depth int) (bool, string) {
	return s.holdsOnAllPaths(site, pred, roots, nil, depth+s.C.DepthBonus, map[*ssa.Function]bool{})
}

// HoldsOnPathsWithin is HoldsOnAllPaths restricted to callers inside `within` (e.g. the functions reachable
// from one route root), so that a helper shared by several routes is judged per route.
func (s *Sem) HoldsOnPathsWithin(site ssa.Instruction, pred SitePred, roots, within map[*ssa.Function]bool, depth int) (bool, string) {
	return s.holdsOnAllPaths(site, pred, roots, within, depth+s.C.DepthBonus, map[*ssa.Function]bool{})
}

func (s *Sem) holdsOnAllPaths(site ssa.Instruction, pred SitePred, roots, within map[*ssa.Function]bool, depth int, visiting map[*ssa.Function]bool) (bool, string) {
	fn := site.Parent()
	st := s.C.F.At(site)
	if st == nil {
		return true, ""
	}
	if pred(st, site) {
		return true, ""
	}
	if roots[fn] {
		return false, "route root " + FuncName(fn) + " reaches " + s.C.P.InstrPos(site) + " with state " + clip(st.String(), 300)
	}
	if depth == 0 {
		return false, "call-depth bound reached at " + FuncName(fn)
	}
	if visiting[fn] {
		return true, "" // recursion: decided by the other callers
	}
	var callers []CallSite
	for _, cs := range s.C.G.Callers[fn] {
		if within == nil || within[cs.Caller] {
			callers = append(callers, cs)
		}
	}
	for _, cs := range s.C.G.DynCallers(fn) {
		if within == nil || within[cs.Caller] {
			callers = append(callers, cs)
		}
	}
	if len(callers) == 0 {
		if len(s.C.G.AddrTaken[fn]) > 0 {
			return false, FuncName(fn) + " is used as a function value (callers unknown) and does not establish the guard itself"
		}
		return false, FuncName(fn) + " has no callers in the module and does not establish the guard itself (state " + clip(st.String(), 200) + ")"
	}
	visiting[fn] = true
	defer delete(visiting, fn)
	for _, cs := range callers {
		ok, why := s.holdsOnAllPaths(cs.Instr, pred, roots, within, depth-1, visiting)
		if !ok {
			return false, why + " -> " + FuncName(fn)
		}
	}
	return true, ""
}

func clip(s string, n int) string {
	if len(s) > n {
		return s[:n] + "…"
	}
	return s
}

// TypeIsNamed reports whether t (pointer-stripped) is the named type full.
func TypeIsNamed(t types.Type, full string) bool { return NamedTypeOf(t) == full }

// KMD_IsAdminUser returns the full name of IsAdminUser (exported for rule files).
func KMD_IsAdminUser() string { return fnIsAdminUser }

// HoldsOnPathsWithinInstr is HoldsOnPathsWithin for predicates over the site alone (e.g. "a dominating call exists").
func (s *Sem) HoldsOnPathsWithinInstr(site ssa.Instruction, pred func(at ssa.Instruction) bool, roots, within map[*ssa.Function]bool, depth int) (bool, string) {
	return s.holdsOnAllPaths(site, func(st DNF, at ssa.Instruction) bool { return pred(at) }, roots, within, depth+s.C.DepthBonus, map[*ssa.Function]bool{})
}

// newTypeFieldHasRole: the field of a struct type that is new to the tree (a request-scoped record handed from one
// stage of a split-up handler to the next) carries the role when every store to that field anywhere in the module
// stores a value of the role. Field-based and object-insensitive: sound for "every value this field can hold".
func (s *Sem) newTypeFieldHasRole(t types.Type, field, role string) bool {
	tn := NamedTypeOf(t)
	if tn == "" || !strings.HasPrefix(tn, ModPath) || pinnedTypes[tn] || len(pinnedTypes) == 0 {
		return false
	}
	n := 0
	for _, fn := range s.C.P.AllFuncs {
		if !s.C.inModule(fn) {
			continue
		}
		for _, b := range fn.Blocks {
			for _, in := range b.Instrs {
				st, ok := in.(*ssa.Store)
				if !ok {
					continue
				}
				fa, ok := st.Addr.(*ssa.FieldAddr)
				if !ok || NamedTypeOf(fa.X.Type()) != tn || fieldName(fa.X.Type(), fa.Field) != field {
					continue
				}
				n++
				if !s.Is(st.Val, role) {
					return false
				}
			}
		}
	}
	return n > 0
}

// localRecordField: v loads field f of a struct kept in a local variable; every use of the variable is a field
// access (it is never copied, passed or stored as a whole) and field f is stored exactly once, by a store that
// dominates the load. Returns the stored value.
func localRecordField(v ssa.Value) (ssa.Value, bool) {
	u, ok := v.(*ssa.UnOp)
	if !ok || u.Op != token.MUL {
		return nil, false
	}
	fa, ok := u.X.(*ssa.FieldAddr)
	if !ok {
		return nil, false
	}
	al, ok := fa.X.(*ssa.Alloc)
	if !ok {
		return nil, false
	}
	if _, isStruct := al.Type().(*types.Pointer).Elem().Underlying().(*types.Struct); !isStruct {
		return nil, false
	}
	var st *ssa.Store
	n := 0
	for _, ref := range *al.Referrers() {
		f2, isFA := ref.(*ssa.FieldAddr)
		if !isFA {
			if _, isDbg := ref.(*ssa.DebugRef); isDbg {
				continue
			}
			return nil, false
		}
		for _, r2 := range *f2.Referrers() {
			switch x := r2.(type) {
			case *ssa.Store:
				if x.Addr != ssa.Value(f2) {
					return nil, false // the field's address is stored somewhere
				}
				if f2.Field == fa.Field {
					st, n = x, n+1
				}
			case *ssa.UnOp, *ssa.DebugRef:
			default:
				return nil, false // address of a field taken (passed on, sliced, ...)
			}
		}
	}
	if n != 1 || !InstrDominates(st, u) {
		return nil, false
	}
	return st.Val, true
}
