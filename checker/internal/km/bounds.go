package km

import (
	"go/constant"
	"go/token"

	"golang.org/x/tools/go/ssa"
)

// ProveLE tries to prove v <= bound from the comparison facts of one conjunction, using transitivity over
// <=, <, == facts and numeric comparison of constants. It is a sound, incomplete search (depth-bounded).
func ProveLE(k Conj, v, bound ssa.Value) bool {
	return proveLE(k.List(), Unwrap(v), Unwrap(bound), map[ssa.Value]bool{}, 0)
}

// ProveGE0 proves v >= 0.
func ProveGE0(k Conj, v ssa.Value) bool {
	v = Unwrap(v)
	return proveGE(k.List(), v, map[ssa.Value]bool{}, 0)
}

func constNum(v ssa.Value) (constant.Value, bool) {
	c, ok := v.(*ssa.Const)
	if !ok || c.Value == nil {
		return nil, false
	}
	if c.Value.Kind() == constant.Int || c.Value.Kind() == constant.Float {
		return c.Value, true
	}
	return nil, false
}

func sameVal(a, b ssa.Value) bool {
	if a == b {
		return true
	}
	ca, oka := constNum(a)
	cb, okb := constNum(b)
	return oka && okb && constant.Compare(ca, token.EQL, cb)
}

func proveLE(facts []Fact, v, bound ssa.Value, seen map[ssa.Value]bool, depth int) bool {
	if sameVal(v, bound) {
		return true
	}
	if cv, ok := constNum(v); ok {
		if cb, ok := constNum(bound); ok {
			return constant.Compare(cv, token.LEQ, cb)
		}
	}
	if depth > 8 || seen[v] {
		return false
	}
	seen[v] = true
	defer delete(seen, v)
	// min(a, b, ...) is below whatever one of its operands is below; max(...) only what all of them are below
	if cl, ok := v.(*ssa.Call); ok {
		if b, isB := cl.Common().Value.(*ssa.Builtin); isB && (b.Name() == "min" || b.Name() == "max") {
			all, any := true, false
			for _, a := range cl.Common().Args {
				if proveLE(facts, Unwrap(a), bound, seen, depth+1) {
					any = true
				} else {
					all = false
				}
			}
			if (b.Name() == "min" && any) || (b.Name() == "max" && all && len(cl.Common().Args) > 0) {
				return true
			}
		}
	}
	for _, f := range facts {
		var w ssa.Value
		switch {
		case (f.Op == token.LEQ || f.Op == token.LSS || f.Op == token.EQL) && sameVal(Unwrap(f.X), v):
			w = Unwrap(f.Y)
		case (f.Op == token.GEQ || f.Op == token.GTR || f.Op == token.EQL) && f.Y != nil && sameVal(Unwrap(f.Y), v):
			w = Unwrap(f.X)
		default:
			continue
		}
		if proveLE(facts, w, bound, seen, depth+1) {
			return true
		}
	}
	return false
}

func proveGE(facts []Fact, v ssa.Value, seen map[ssa.Value]bool, depth int) bool {
	if cv, ok := constNum(v); ok {
		return constant.Sign(cv) >= 0
	}
	if depth > 8 || seen[v] {
		return false
	}
	seen[v] = true
	defer delete(seen, v)
	if cl, ok := v.(*ssa.Call); ok {
		if b, isB := cl.Common().Value.(*ssa.Builtin); isB && (b.Name() == "min" || b.Name() == "max") {
			all, any := true, false
			for _, a := range cl.Common().Args {
				if proveGE(facts, Unwrap(a), seen, depth+1) {
					any = true
				} else {
					all = false
				}
			}
			if (b.Name() == "max" && any) || (b.Name() == "min" && all && len(cl.Common().Args) > 0) {
				return true
			}
		}
	}
	for _, f := range facts {
		var w ssa.Value
		switch {
		case (f.Op == token.GEQ || f.Op == token.GTR || f.Op == token.EQL) && sameVal(Unwrap(f.X), v):
			w = Unwrap(f.Y)
		case (f.Op == token.LEQ || f.Op == token.LSS || f.Op == token.EQL) && f.Y != nil && sameVal(Unwrap(f.Y), v):
			w = Unwrap(f.X)
		default:
			continue
		}
		if proveGE(facts, w, seen, depth+1) {
			return true
		}
	}
	return false
}

// UpperChain lists v and every value w with v <= w derivable from the comparison facts of k (w is an upper bound
// of v); LowerChain the values with w <= v.
func UpperChain(k Conj, v ssa.Value) []ssa.Value { return chain(k.List(), Unwrap(v), true) }
func LowerChain(k Conj, v ssa.Value) []ssa.Value { return chain(k.List(), Unwrap(v), false) }

func chain(facts []Fact, v ssa.Value, upper bool) []ssa.Value {
	seen := map[ssa.Value]bool{v: true}
	out := []ssa.Value{v}
	for i := 0; i < len(out) && len(out) < 64; i++ {
		cur := out[i]
		for _, f := range facts {
			var w ssa.Value
			le := f.Op == token.LEQ || f.Op == token.LSS || f.Op == token.EQL
			ge := f.Op == token.GEQ || f.Op == token.GTR || f.Op == token.EQL
			if !upper {
				le, ge = ge, le
			}
			switch {
			case le && f.Y != nil && sameVal(Unwrap(f.X), cur):
				w = Unwrap(f.Y)
			case ge && f.Y != nil && sameVal(Unwrap(f.Y), cur):
				w = Unwrap(f.X)
			default:
				continue
			}
			if !seen[w] {
				seen[w] = true
				out = append(out, w)
			}
		}
	}
	return out
}
