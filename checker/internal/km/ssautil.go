package km

import (
	"go/constant"
	"go/token"
	"go/types"
	"sort"
	"strings"

	"golang.org/x/tools/go/ssa"
)

// CalleeFull returns a fully qualified, stable name for the callee of a call:
//
//	static function       pkgpath.Name
//	static method         (pkgpath.T).Name / (*pkgpath.T).Name
//	interface invoke      iface:(pkgpath.I).Name
//	bound method closure  as static method
//	anything else         ""
func CalleeFull(c *ssa.CallCommon) string {
	if c.IsInvoke() {
		if f := StaticCallee(c); f != nil {
			return FuncFull(f)
		}
		return "iface:(" + types.TypeString(c.Value.Type(), nil) + ")." + c.Method.Name()
	}
	if f := StaticCallee(c); f != nil {
		return FuncFull(f)
	}
	if b, ok := c.Value.(*ssa.Builtin); ok {
		return "builtin:" + b.Name()
	}
	return ""
}

// StaticCallee resolves the function a call statically invokes, looking through bound-method closures.
func StaticCallee(c *ssa.CallCommon) *ssa.Function {
	f := staticCalleeRaw(c)
	for i := 0; i < 3 && f != nil; i++ {
		fi := forwardOf(f)
		if fi == nil {
			break
		}
		f = fi.inner
	}
	return f
}

func staticCalleeRaw(c *ssa.CallCommon) *ssa.Function {
	if c.IsInvoke() {
		return devirtInvoke(c)
	}
	switch v := c.Value.(type) {
	case *ssa.Function:
		return v
	case *ssa.MakeClosure:
		if f, ok := v.Fn.(*ssa.Function); ok {
			return f
		}
	case *ssa.Phi:
		// a function value with a fallback (f := x.hook; if f == nil { f = pkg.Default }): every way resolves to
		// the same function
		var one *ssa.Function
		for _, e := range v.Edges {
			e = Unwrap(e)
			f := plainFuncValue(e)
			if f == nil {
				f = fieldFuncOf(e)
			}
			if f == nil || (one != nil && f != one) {
				return nil
			}
			one = f
		}
		return one
	default:
		return fieldFuncOf(c.Value)
	}
	return nil
}

// FuncFull is the fully qualified name of a function: "pkgpath.Name", "(*pkgpath.T).Name"; bound wrappers
// and thunks are mapped to the method they wrap; anonymous functions to "parent$N".
func FuncFull(f *ssa.Function) string {
	if f == nil {
		return ""
	}
	s := f.String()
	s = strings.TrimSuffix(s, "$bound")
	s = strings.TrimSuffix(s, "$thunk")
	return recordedString(s)
}

// Origin returns the generic origin for instantiated functions, else f.
func Origin(f *ssa.Function) *ssa.Function {
	if f != nil && f.Origin() != nil {
		return f.Origin()
	}
	return f
}

// CalleeShort renders the callee for messages (module path stripped).
func CalleeShort(c *ssa.CallCommon) string {
	s := CalleeFull(c)
	if s == "" {
		return "dyn:" + ValStr(c.Value)
	}
	return strings.ReplaceAll(s, ModPath+"/", "")
}

// IsCallTo reports whether instr is a call/go/defer whose callee's full name is one of names.
func IsCallTo(in ssa.Instruction, names ...string) bool {
	ci, ok := in.(ssa.CallInstruction)
	if !ok {
		return false
	}
	n := CalleeFull(ci.Common())
	for _, x := range names {
		if n == x {
			return true
		}
	}
	return false
}

// CallArgs returns the arguments of the call including the receiver as args[0] for both static method
// calls and interface invokes.
func CallArgs(c *ssa.CallCommon) []ssa.Value {
	args := callArgsRaw(c)
	f := staticCalleeRaw(c)
	for i := 0; i < 3 && f != nil; i++ {
		fi := forwardOf(f)
		if fi == nil {
			break
		}
		if bodyMovedOut[f] {
			// the recorded function itself, kept as a thin wrapper around its moved body: the call already has the
			// recorded arguments in the recorded order
			if pf, ok := pinnedByName[f.String()]; ok && identityOf(f).Sig == pf.Sig && identityOf(f).Recv == pf.Recv {
				return args
			}
		}
		mapped := make([]ssa.Value, len(fi.argParam))
		for j, pi := range fi.argParam {
			if pi >= 0 && pi < len(args) {
				mapped[j] = args[pi]
			} else {
				mapped[j] = fi.konst[j]
			}
		}
		args, f = mapped, fi.inner
	}
	// arguments in the recorded parameter order of a recorded function whose parameter list changed
	if f != nil {
		if o := recordedOrder(f); o != nil {
			re := make([]ssa.Value, len(o))
			for i, j := range o {
				if j >= 0 && j < len(args) {
					re[i] = args[j]
				} else {
					re[i] = ssa.NewConst(nil, types.Typ[types.UntypedNil])
				}
			}
			return re
		}
	}
	return args
}

func callArgsRaw(c *ssa.CallCommon) []ssa.Value {
	if c.IsInvoke() {
		return append([]ssa.Value{c.Value}, c.Args...)
	}

	if mc, ok := c.Value.(*ssa.MakeClosure); ok {
		// bound method closure: bindings are the receiver
		if f, ok := mc.Fn.(*ssa.Function); ok && strings.HasSuffix(f.Name(), "$bound") {
			return append(append([]ssa.Value{}, mc.Bindings...), c.Args...)
		}
	}
	if mc := boundMethodParam(c.Value); mc != nil {
		return append(append([]ssa.Value{}, mc.Bindings...), c.Args...)
	}
	return c.Args
}

// Unwrap strips conversions that do not change the identity of the value for provenance purposes.
func Unwrap(v ssa.Value) ssa.Value {
	for {
		switch x := v.(type) {
		case *ssa.ChangeType:
			v = x.X
		case *ssa.MakeInterface:
			v = x.X
		case *ssa.ChangeInterface:
			v = x.X
		default:
			return v
		}
	}
}

// ConstString returns the string value of a constant value.
func ConstString(v ssa.Value) (string, bool) {
	c, ok := Unwrap(v).(*ssa.Const)
	if !ok || c.Value == nil || c.Value.Kind() != constant.String {
		return "", false
	}
	return constant.StringVal(c.Value), true
}

// ConstInt returns the integer value of a constant value.
func ConstInt(v ssa.Value) (int64, bool) {
	c, ok := Unwrap(v).(*ssa.Const)
	if !ok || c.Value == nil {
		return 0, false
	}
	if c.Value.Kind() != constant.Int {
		if c.Value.Kind() == constant.Float {
			f, _ := constant.Float64Val(c.Value)
			if float64(int64(f)) == f {
				return int64(f), true
			}
		}
		return 0, false
	}
	i, ok := constant.Int64Val(c.Value)
	if !ok {
		// large unsigned
		u, ok2 := constant.Uint64Val(c.Value)
		return int64(u), ok2
	}
	return i, ok
}

func IsNilConst(v ssa.Value) bool {
	c, ok := Unwrap(v).(*ssa.Const)
	return ok && c.Value == nil
}

// FieldOfLoad: if v is a load of X.f (through FieldAddr) or a Field extraction, returns (X, fieldname).
func FieldOfLoad(v ssa.Value) (ssa.Value, string, bool) {
	switch x := v.(type) {
	case *ssa.UnOp:
		if x.Op == token.MUL {
			if fa, ok := x.X.(*ssa.FieldAddr); ok {
				return fa.X, fieldName(fa.X.Type(), fa.Field), true
			}
		}
	case *ssa.Field:
		return x.X, fieldName(x.X.Type(), x.Field), true
	}
	return nil, "", false
}

// FieldPath: v = load of base.f1.f2...; returns base and the dotted path (handles nested FieldAddr and Field).
func FieldPath(v ssa.Value) (ssa.Value, string, bool) {
	return fieldPathD(v, 0)
}

// fieldPathD: fieldPathRaw, continued through parameters that stand for the one argument every caller passes.
func fieldPathD(v ssa.Value, depth int) (ssa.Value, string, bool) {
	if p, ok := v.(*ssa.Parameter); ok && depth < 3 {
		if b := paramBind[p]; b != nil {
			return fieldPathD(b, depth+1)
		}
	}
	root, path, ok := fieldPathRaw(v)
	if !ok {
		return root, path, ok
	}
	if p, isP := root.(*ssa.Parameter); isP && depth < 3 {
		if b := paramBind[p]; b != nil {
			if r2, p2, ok2 := fieldPathD(b, depth+1); ok2 {
				return r2, p2 + "." + path, true
			}
		}
	}
	return root, path, ok
}

func fieldPathRaw(v ssa.Value) (ssa.Value, string, bool) {
	var path []string
	cur := v
	if u, ok := cur.(*ssa.UnOp); ok && u.Op == token.MUL {
		cur = u.X
	} else if _, ok := cur.(*ssa.Field); !ok {
		return nil, "", false
	}
	for {
		switch x := cur.(type) {
		case *ssa.FieldAddr:
			path = append([]string{fieldName(x.X.Type(), x.Field)}, path...)
			cur = x.X
			continue
		case *ssa.Field:
			path = append([]string{fieldName(x.X.Type(), x.Field)}, path...)
			cur = x.X
			continue
		case *ssa.UnOp:
			if x.Op == token.MUL {
				if _, ok := x.X.(*ssa.FieldAddr); ok {
					cur = x.X
					continue
				}
			}
		}
		break
	}
	if len(path) == 0 {
		return nil, "", false
	}
	return cur, strings.Join(path, "."), true
}

// NamedTypeOf returns "pkgpath.Name" of the (pointer-stripped) named type of t, or "".
func NamedTypeOf(t types.Type) string {
	if p, ok := t.(*types.Pointer); ok {
		t = p.Elem()
	}
	t = types.Unalias(t)
	if n, ok := t.(*types.Named); ok {
		if n.Obj().Pkg() == nil {
			return n.Obj().Name()
		}
		full := n.Obj().Pkg().Path() + "." + n.Obj().Name()
		if o, ok := typeRenamed[full]; ok {
			return o
		}
		return full
	}
	return ""
}

// ---------------------------------------------------------------------------------------------
// Call graph restricted to static calls inside the module (plus closures created in a function).

type CallSite struct {
	Caller *ssa.Function
	Instr  ssa.Instruction // *ssa.Call, *ssa.Go, *ssa.Defer or *ssa.MakeClosure (for anonymous functions)
}

type CallGraph struct {
	Callers map[*ssa.Function][]CallSite
	Callees map[*ssa.Function][]*ssa.Function
	// functions whose address is taken as a value (method values, function values) other than for an immediate call
	AddrTaken map[*ssa.Function][]CallSite
	bySig     map[string][]*ssa.Function
	// call sites through function values, by signature key
	DynSites map[string][]CallSite
}

// DynCallers returns the call sites through function values that may invoke fn (fn's address is taken and the
// signatures are identical).
func (g *CallGraph) DynCallers(fn *ssa.Function) []CallSite {
	if len(g.AddrTaken[fn]) == 0 {
		return nil
	}
	return g.DynSites[sigKey(fn.Signature)]
}

func BuildCallGraph(p *Prog) *CallGraph {
	g := &CallGraph{Callers: map[*ssa.Function][]CallSite{}, Callees: map[*ssa.Function][]*ssa.Function{}, AddrTaken: map[*ssa.Function][]CallSite{}, DynSites: map[string][]CallSite{}}
	for _, fn := range p.AllFuncs {
		if forwardOf(fn) != nil {
			continue
		}
		for _, b := range fn.Blocks {
			for _, in := range b.Instrs {
				if ci, ok := in.(ssa.CallInstruction); ok {
					if f := StaticCallee(ci.Common()); f != nil {
						g.addEdge(fn, in, f)
					} else if _, isB := ci.Common().Value.(*ssa.Builtin); !isB && !ci.Common().IsInvoke() {
						if sg, ok := ci.Common().Value.Type().Underlying().(*types.Signature); ok {
							k := sigKey(sg)
							g.DynSites[k] = append(g.DynSites[k], CallSite{fn, in})
						}
					}
				}
				if mc, ok := in.(*ssa.MakeClosure); ok {
					if f, ok := mc.Fn.(*ssa.Function); ok {
						if strings.HasSuffix(f.Name(), "$bound") {
							// method value: find the method itself
							if m := boundTarget(p, f); m != nil {
								g.AddrTaken[m] = append(g.AddrTaken[m], CallSite{fn, in})
							}
						} else {
							g.addEdge(fn, in, f)
						}
					}
				}
				// function values used as operands
				for _, op := range in.Operands(nil) {
					if op == nil || *op == nil {
						continue
					}
					if f, ok := (*op).(*ssa.Function); ok {
						if ci, isCall := in.(ssa.CallInstruction); isCall && ci.Common().Value == f {
							continue
						}
						if f.Parent() != nil { // anonymous without free vars
							g.addEdge(fn, in, f)
						} else {
							g.AddrTaken[f] = append(g.AddrTaken[f], CallSite{fn, in})
						}
					}
				}
			}
		}
	}
	return g
}

// DynTargets resolves a call through a function value to the address-taken module functions of identical signature.
func (g *CallGraph) DynTargets(c *ssa.CallCommon) []*ssa.Function {
	sig, ok := c.Value.Type().Underlying().(*types.Signature)
	if !ok {
		return nil
	}
	if g.bySig == nil {
		g.bySig = map[string][]*ssa.Function{}
		var fns []*ssa.Function
		for f := range g.AddrTaken {
			fns = append(fns, f)
		}
		sort.Slice(fns, func(i, j int) bool { return fns[i].String() < fns[j].String() })
		for _, f := range fns {
			k := sigKey(f.Signature)
			g.bySig[k] = append(g.bySig[k], f)
		}
	}
	return g.bySig[sigKey(sig)]
}

// sigKey renders a signature without receiver and without parameter names.
func sigKey(s *types.Signature) string {
	var b strings.Builder
	b.WriteString("(")
	for i := 0; i < s.Params().Len(); i++ {
		if i > 0 {
			b.WriteString(",")
		}
		b.WriteString(s.Params().At(i).Type().String())
	}
	if s.Variadic() {
		b.WriteString("...")
	}
	b.WriteString(")(")
	for i := 0; i < s.Results().Len(); i++ {
		if i > 0 {
			b.WriteString(",")
		}
		b.WriteString(s.Results().At(i).Type().String())
	}
	b.WriteString(")")
	return b.String()
}

func (g *CallGraph) addEdge(from *ssa.Function, in ssa.Instruction, to *ssa.Function) {
	if strings.HasSuffix(to.Name(), "$bound") || strings.HasSuffix(to.Name(), "$thunk") {
		// resolve wrapper to target by looking at its single call
		for _, b := range to.Blocks {
			for _, i2 := range b.Instrs {
				if c, ok := i2.(*ssa.Call); ok {
					if t := StaticCallee(c.Common()); t != nil {
						to = t
					}
				}
			}
		}
	}
	g.Callers[to] = append(g.Callers[to], CallSite{from, in})
	g.Callees[from] = append(g.Callees[from], to)
}

func boundTarget(p *Prog, bound *ssa.Function) *ssa.Function {
	for _, b := range bound.Blocks {
		for _, in := range b.Instrs {
			if c, ok := in.(*ssa.Call); ok {
				if t := StaticCallee(c.Common()); t != nil {
					return t
				}
			}
		}
	}
	return nil
}

// Reachable returns the set of module functions reachable from roots through static calls and closures,
// and through interface invokes resolved by CHA restricted to module types.
func (p *Prog) Reachable(g *CallGraph, roots []*ssa.Function, viaIface func(c *ssa.CallCommon) []*ssa.Function, stop map[*ssa.Function]bool) map[*ssa.Function]bool {
	seen := map[*ssa.Function]bool{}
	var work []*ssa.Function
	push := func(f *ssa.Function) {
		if f != nil && !seen[f] && f.Blocks != nil {
			seen[f] = true
			work = append(work, f)
		}
	}
	for _, r := range roots {
		push(r)
	}
	for len(work) > 0 {
		f := work[len(work)-1]
		work = work[:len(work)-1]
		if stop[f] {
			continue
		}
		for _, c := range g.Callees[f] {
			push(c)
		}
		// calls through function values: every module function whose address is taken somewhere and whose
		// signature is identical may be the callee (class-hierarchy style resolution for func types)
		for _, b := range f.Blocks {
			for _, in := range b.Instrs {
				ci, ok := in.(ssa.CallInstruction)
				if !ok || ci.Common().IsInvoke() || StaticCallee(ci.Common()) != nil {
					continue
				}
				if _, isB := ci.Common().Value.(*ssa.Builtin); isB {
					continue
				}
				for _, t := range g.DynTargets(ci.Common()) {
					push(t)
				}
			}
		}
		if viaIface != nil {
			for _, b := range f.Blocks {
				for _, in := range b.Instrs {
					if ci, ok := in.(ssa.CallInstruction); ok && ci.Common().IsInvoke() {
						for _, t := range viaIface(ci.Common()) {
							push(t)
						}
					}
				}
			}
		}
	}
	return seen
}

// ImplementorsOf resolves an interface method call to the module's concrete methods (CHA within the module).
func (p *Prog) ImplementorsOf(c *ssa.CallCommon) []*ssa.Function {
	if !c.IsInvoke() {
		return nil
	}
	iface, ok := c.Value.Type().Underlying().(*types.Interface)
	if !ok {
		return nil
	}
	var out []*ssa.Function
	for _, pk := range p.Pkgs {
		sp := p.SSAPkg[pk.PkgPath]
		for _, m := range sp.Members {
			tm, ok := m.(*ssa.Type)
			if !ok {
				continue
			}
			if _, isIface := tm.Type().Underlying().(*types.Interface); isIface {
				continue
			}
			for _, t := range []types.Type{tm.Type(), types.NewPointer(tm.Type())} {
				if types.Implements(t, iface) {
					sel := p.SSA.MethodSets.MethodSet(t).Lookup(c.Method.Pkg(), c.Method.Name())
					if sel != nil {
						if fn := p.SSA.MethodValue(sel); fn != nil {
							// map synthetic pointer-receiver wrappers to the declared method
							out = append(out, unwrapSynthetic(fn))
						}
					}
					break
				}
			}
		}
	}
	sort.Slice(out, func(i, j int) bool { return out[i].String() < out[j].String() })
	// dedupe
	var ded []*ssa.Function
	for i, f := range out {
		if i == 0 || out[i-1] != f {
			ded = append(ded, f)
		}
	}
	return ded
}

func unwrapSynthetic(fn *ssa.Function) *ssa.Function {
	if fn.Synthetic == "" {
		return fn
	}
	for _, b := range fn.Blocks {
		for _, in := range b.Instrs {
			if c, ok := in.(*ssa.Call); ok {
				if t := StaticCallee(c.Common()); t != nil {
					return t
				}
			}
		}
	}
	return fn
}

// Instrs iterates over all instructions of fn in block order.
func Instrs(fn *ssa.Function, f func(in ssa.Instruction)) {
	fwd := forwardOf(fn) != nil
	for _, b := range fn.Blocks {
		for _, in := range b.Instrs {
			if fwd {
				if _, isCall := in.(ssa.CallInstruction); isCall {
					continue // looked through at the wrapper's call sites
				}
			}
			f(in)
		}
	}
}

// CallsIn returns the call instructions (call/go/defer) in fn, in source-ish (block) order.
func CallsIn(fn *ssa.Function) []ssa.CallInstruction {
	var out []ssa.CallInstruction
	if forwardOf(fn) != nil {
		return nil // a forwarding wrapper is looked through at its call sites; its own call is not a site
	}
	Instrs(fn, func(in ssa.Instruction) {
		if ci, ok := in.(ssa.CallInstruction); ok {
			out = append(out, ci)
		}
	})
	return out
}

// Dominates reports whether block a dominates block b.
func Dominates(a, b *ssa.BasicBlock) bool { return a.Dominates(b) }

// InstrDominates: instruction a executes before b on every path to b (same function).
func InstrDominates(a, b ssa.Instruction) bool {
	if a.Block() == b.Block() {
		for _, in := range a.Block().Instrs {
			if in == a {
				return true
			}
			if in == b {
				return false
			}
		}
		return false
	}
	return a.Block().Dominates(b.Block())
}

// ReachableBlocks returns the blocks reachable from start (inclusive) following successor edges, optionally
// not passing through the blocks in stop.
func ReachableBlocks(start *ssa.BasicBlock, stop map[*ssa.BasicBlock]bool) map[*ssa.BasicBlock]bool {
	seen := map[*ssa.BasicBlock]bool{}
	var dfs func(b *ssa.BasicBlock)
	dfs = func(b *ssa.BasicBlock) {
		if seen[b] || stop[b] {
			return
		}
		seen[b] = true
		for _, s := range b.Succs {
			dfs(s)
		}
	}
	dfs(start)
	return seen
}
