package km

import (
	_ "embed"
	"encoding/json"
	"go/token"
	"go/types"
	"sort"
	"strings"

	"golang.org/x/tools/go/ssa"
)

// A refactor for testability puts an interface, or a function-typed field, between a caller and the one function
// it always called. Nothing changes at run time, but the call is no longer static, and every rule that names the
// callee or follows the call would lose it. Indirections that are new to the tree (the interface type, or the
// field, is not in the recorded tables) are therefore resolved when they can only mean one function:
//   - an interface declared in the module whose only implementation in the module is one named type: a call
//     through the interface is a call of that type's method;
//   - a function-typed struct field into which the module only ever stores one plain function (or one closure
//     without captured variables): a call through the field is a call of that function.
// Interfaces and fields that exist in the recorded tree keep their dynamic treatment (the rules were written
// against it).

//go:embed pinned_types.json
var pinnedTypesJSON []byte

//go:embed pinned_globals.json
var pinnedGlobalsJSON []byte

// globalFunc: a function-typed package-level variable new to the tree -> the only function ever assigned to it.
var globalFunc = map[*ssa.Global]*ssa.Function{}

// paramFunc: a function-typed parameter of a function new to the tree -> the one plain function every caller passes.
var paramFunc = map[*ssa.Parameter]*ssa.Function{}

// PinnedGlobalsTable renders the package-level variables of the loaded tree (kmcheck -dump pinnedglobals).
func PinnedGlobalsTable(p *Prog) []byte {
	var names []string
	for _, pk := range p.Pkgs {
		sp := p.SSAPkg[pk.PkgPath]
		for n, m := range sp.Members {
			if _, ok := m.(*ssa.Global); ok {
				names = append(names, pk.PkgPath+"."+n)
			}
		}
	}
	sort.Strings(names)
	b, _ := json.MarshalIndent(names, "", " ")
	return append(b, '\n')
}

func plainFuncValue(v ssa.Value) *ssa.Function {
	switch x := v.(type) {
	case *ssa.Function:
		return x
	case *ssa.MakeClosure:
		if len(x.Bindings) == 0 {
			f, _ := x.Fn.(*ssa.Function)
			return f
		}
	case *ssa.ChangeType:
		return plainFuncValue(x.X)
	}
	return nil
}

func computeFuncValues(p *Prog) {
	globalFunc = map[*ssa.Global]*ssa.Function{}
	paramFunc = map[*ssa.Parameter]*ssa.Function{}
	var gl []string
	if json.Unmarshal(pinnedGlobalsJSON, &gl) != nil || len(gl) == 0 {
		return
	}
	pinnedGlobal := map[string]bool{}
	for _, n := range gl {
		pinnedGlobal[n] = true
	}
	// package-level function variables
	gcand := map[*ssa.Global]map[*ssa.Function]bool{}
	gbad := map[*ssa.Global]bool{}
	for _, fn := range p.AllFuncs {
		for _, b := range fn.Blocks {
			for _, in := range b.Instrs {
				st, ok := in.(*ssa.Store)
				if !ok {
					continue
				}
				g, isG := st.Addr.(*ssa.Global)
				if !isG || g.Pkg == nil {
					continue
				}
				if _, isSig := g.Type().Underlying().(*types.Pointer).Elem().Underlying().(*types.Signature); !isSig {
					continue
				}
				if pinnedGlobal[g.Pkg.Pkg.Path()+"."+g.Name()] {
					continue
				}
				f := plainFuncValue(st.Val)
				if f == nil || fn != g.Pkg.Func("init") {
					gbad[g] = true
					continue
				}
				if gcand[g] == nil {
					gcand[g] = map[*ssa.Function]bool{}
				}
				gcand[g][f] = true
			}
		}
	}
	for g, fs := range gcand {
		if gbad[g] || len(fs) != 1 {
			continue
		}
		for f := range fs {
			globalFunc[g] = f
			RenameNotes = append(RenameNotes, "call through the new function variable "+g.String()+" resolved to "+f.String())
		}
	}
	// function-typed parameters of functions new to the tree
	pcand := map[*ssa.Parameter]map[*ssa.Function]bool{}
	pbad := map[*ssa.Parameter]bool{}
	called := map[*ssa.Function]bool{}
	for _, fn := range p.AllFuncs {
		for _, b := range fn.Blocks {
			for _, in := range b.Instrs {
				// a function whose address is taken may be called with anything
				for _, op := range in.Operands(nil) {
					if op == nil || *op == nil {
						continue
					}
					if f, ok := (*op).(*ssa.Function); ok {
						if ci, isCall := in.(ssa.CallInstruction); !isCall || ci.Common().Value != ssa.Value(f) {
							for _, q := range f.Params {
								pbad[q] = true
							}
						}
					}
				}
				ci, ok := in.(ssa.CallInstruction)
				if !ok {
					continue
				}
				g := staticCalleeRaw(ci.Common())
				if g == nil || g.Blocks == nil || recordedFuncNames[recordedString(g.String())] {
					continue
				}
				called[g] = true
				args := callArgsRaw(ci.Common())
				for i, q := range g.Params {
					if _, isSig := q.Type().Underlying().(*types.Signature); !isSig {
						continue
					}
					if i >= len(args) {
						pbad[q] = true
						continue
					}
					f := plainFuncValue(args[i])
					if f == nil {
						pbad[q] = true
						continue
					}
					if pcand[q] == nil {
						pcand[q] = map[*ssa.Function]bool{}
					}
					pcand[q][f] = true
				}
			}
		}
	}
	for q, fs := range pcand {
		if pbad[q] || len(fs) != 1 || !called[q.Parent()] {
			continue
		}
		for f := range fs {
			paramFunc[q] = f
			RenameNotes = append(RenameNotes, "call through the function parameter "+q.Name()+" of "+q.Parent().String()+" resolved to "+f.String())
		}
	}
}

var pinnedTypes = map[string]bool{}

// devirt: full name of an interface method ("(pkg.I).M") -> the only implementation.
var devirt = map[string]*ssa.Function{}

// fieldFunc: "pkg.T\x00field" -> the only function ever stored into that function-typed field.
var fieldFunc = map[string]*ssa.Function{}

// PinnedTypesTable renders the named types of the loaded tree with their underlying types (kmcheck -dump
// pinnedtypes).
func PinnedTypesTable(p *Prog) []byte {
	q := func(pk *types.Package) string { return pk.Path() }
	var rows [][2]string
	for _, pk := range p.Pkgs {
		sc := pk.Types.Scope()
		for _, n := range sc.Names() {
			if tn, ok := sc.Lookup(n).(*types.TypeName); ok && !tn.IsAlias() {
				rows = append(rows, [2]string{pk.PkgPath + "." + n, types.TypeString(tn.Type().Underlying(), q)})
			}
		}
	}
	b, _ := json.MarshalIndent(rows, "", " ")
	return append(b, '\n')
}

func loadPinnedTypes() [][2]string {
	var rows [][2]string
	if err := json.Unmarshal(pinnedTypesJSON, &rows); err != nil {
		return nil
	}
	return rows
}

func computeDevirt(p *Prog) {
	devirt = map[string]*ssa.Function{}
	fieldFunc = map[string]*ssa.Function{}
	pinnedTypes = map[string]bool{}
	rows := loadPinnedTypes()
	if len(rows) == 0 {
		return
	}
	for _, r := range rows {
		pinnedTypes[r[0]] = true
	}
	// a renamed type is not a new one
	for nw := range typeRenamed {
		pinnedTypes[nw] = true
	}
	pinnedField := map[string]bool{}
	var ftab []PinnedStruct
	if json.Unmarshal(pinnedFieldsJSON, &ftab) == nil {
		for _, ps := range ftab {
			for _, f := range ps.Fields {
				pinnedField[ps.Type+"\x00"+f[0]] = true
			}
		}
	}
	// named types of the module
	type named struct {
		full string
		tn   *types.TypeName
	}
	var all []named
	for _, pk := range p.Pkgs {
		sc := pk.Types.Scope()
		for _, n := range sc.Names() {
			if tn, ok := sc.Lookup(n).(*types.TypeName); ok && !tn.IsAlias() {
				all = append(all, named{pk.PkgPath + "." + n, tn})
			}
		}
	}
	for _, it := range all {
		iface, ok := it.tn.Type().Underlying().(*types.Interface)
		if !ok || pinnedTypes[it.full] || iface.NumMethods() == 0 {
			continue
		}
		var impl types.Type
		n := 0
		for _, ct := range all {
			if _, isI := ct.tn.Type().Underlying().(*types.Interface); isI {
				continue
			}
			t := ct.tn.Type()
			switch {
			case types.Implements(t, iface):
				impl = t
				n++
			case types.Implements(types.NewPointer(t), iface):
				impl = types.NewPointer(t)
				n++
			}
		}
		if n == 0 {
			// no type of the module implements it: a seam in front of a library type. The implementation is the
			// one concrete type that is ever converted to the interface anywhere in the module.
			seenT := map[string]types.Type{}
			for _, fn := range p.AllFuncs {
				for _, b := range fn.Blocks {
					for _, in := range b.Instrs {
						switch mi := in.(type) {
						case *ssa.MakeInterface:
							if types.Identical(mi.Type(), it.tn.Type()) {
								seenT[types.TypeString(mi.X.Type(), nil)] = mi.X.Type()
							}
						case *ssa.ChangeInterface:
							// a value of unknown dynamic type converted from another interface
							if types.Identical(mi.Type(), it.tn.Type()) {
								seenT["?"+types.TypeString(mi.X.Type(), nil)] = nil
								seenT["??"] = nil
							}
						case *ssa.TypeAssert:
							if types.Identical(mi.AssertedType, it.tn.Type()) {
								seenT["?assert"] = nil
								seenT["??"] = nil
							}
						}
					}
				}
			}
			if len(seenT) == 1 {
				for _, t := range seenT {
					impl = t
					n = 1
				}
			}
		}
		if n != 1 {
			continue
		}
		ms := p.SSA.MethodSets.MethodSet(impl)
		for i := 0; i < iface.NumMethods(); i++ {
			m := iface.Method(i)
			sel := ms.Lookup(m.Pkg(), m.Name())
			if sel == nil {
				continue
			}
			if fn := p.SSA.MethodValue(sel); fn != nil && (fn.Blocks != nil || fn.Pkg == nil || !strings.HasPrefix(fn.Pkg.Pkg.Path(), ModPath)) {
				devirt[it.full+"\x00"+m.Name()] = fn
			}
		}
	}
	// function-typed fields new to the tree
	cand := map[string]map[*ssa.Function]bool{}
	bad := map[string]bool{}
	note := func(fa *ssa.FieldAddr, v ssa.Value) {
		t := fa.X.Type()
		if pt, ok := t.Underlying().(*types.Pointer); ok {
			t = pt.Elem()
		}
		nt, ok := t.(*types.Named)
		if !ok || nt.Obj().Pkg() == nil {
			return
		}
		st, ok := nt.Underlying().(*types.Struct)
		if !ok || fa.Field >= st.NumFields() {
			return
		}
		if _, isSig := st.Field(fa.Field).Type().Underlying().(*types.Signature); !isSig {
			return
		}
		key := nt.Obj().Pkg().Path() + "." + nt.Obj().Name() + "\x00" + st.Field(fa.Field).Name()
		if pinnedField[key] {
			return
		}
		fn := plainFuncValue(v)
		if fn == nil {
			bad[key] = true
			return
		}
		if cand[key] == nil {
			cand[key] = map[*ssa.Function]bool{}
		}
		cand[key][fn] = true
	}
	for _, fn := range p.AllFuncs {
		for _, b := range fn.Blocks {
			for _, in := range b.Instrs {
				if st, ok := in.(*ssa.Store); ok {
					if fa, ok := st.Addr.(*ssa.FieldAddr); ok {
						note(fa, st.Val)
					}
				}
			}
		}
	}
	for key, fns := range cand {
		if bad[key] || len(fns) != 1 {
			continue
		}
		for f := range fns {
			fieldFunc[key] = f
			RenameNotes = append(RenameNotes, "call through the new field "+key[:len(key)-len(key[indexByte0(key):])]+"."+key[indexByte0(key)+1:]+" resolved to "+f.String())
		}
	}
	for k, f := range devirt {
		RenameNotes = append(RenameNotes, "call through the new interface method "+k[:indexByte0(k)]+"."+k[indexByte0(k)+1:]+" resolved to "+f.String())
	}
}

func indexByte0(s string) int {
	for i := 0; i < len(s); i++ {
		if s[i] == 0 {
			return i
		}
	}
	return len(s) - 1
}

// devirtInvoke: the only implementation behind an interface method call, when the interface is new to the tree.
func devirtInvoke(c *ssa.CallCommon) *ssa.Function {
	if len(devirt) == 0 || c.Method == nil {
		return nil
	}
	t := c.Value.Type()
	nt, ok := t.(*types.Named)
	if !ok || nt.Obj().Pkg() == nil {
		return nil
	}
	return devirt[nt.Obj().Pkg().Path()+"."+nt.Obj().Name()+"\x00"+c.Method.Name()]
}

// fieldFuncOf: the only function behind a call through a function-typed field that is new to the tree.
func fieldFuncOf(v ssa.Value) *ssa.Function {
	switch x := v.(type) {
	case *ssa.Parameter:
		if f := paramFunc[x]; f != nil {
			return f
		}
		if mc := boundMethodParam(x); mc != nil {
			if f, _ := mc.Fn.(*ssa.Function); f != nil {
				if t := boundTarget(nil, f); t != nil {
					return t
				}
				return f
			}
		}
		return nil
	case *ssa.UnOp:
		if g, ok := x.X.(*ssa.Global); ok && x.Op == token.MUL {
			return globalFunc[g]
		}
	}
	if len(fieldFunc) == 0 {
		return nil
	}
	var t types.Type
	idx := -1
	switch x := v.(type) {
	case *ssa.UnOp:
		if fa, ok := x.X.(*ssa.FieldAddr); ok && x.Op == token.MUL {
			t, idx = fa.X.Type(), fa.Field
		}
	case *ssa.Field:
		t, idx = x.X.Type(), x.Field
	}
	if idx < 0 {
		return nil
	}
	if pt, ok := t.Underlying().(*types.Pointer); ok {
		t = pt.Elem()
	}
	nt, ok := t.(*types.Named)
	if !ok || nt.Obj().Pkg() == nil {
		return nil
	}
	st, ok := nt.Underlying().(*types.Struct)
	if !ok || idx >= st.NumFields() {
		return nil
	}
	return fieldFunc[nt.Obj().Pkg().Path()+"."+nt.Obj().Name()+"\x00"+st.Field(idx).Name()]
}

// IsNewNamedType: the named type (full "pkgpath.Name") belongs to the module and is not in the recorded tree.
func IsNewNamedType(full string) bool {
	return len(pinnedTypes) > 0 && strings.HasPrefix(full, ModPath) && !pinnedTypes[full]
}
