package km

import (
	"fmt"
	"go/constant"
	"go/token"
	"go/types"
	"math/bits"
	"sort"
	"strings"

	"golang.org/x/tools/go/ssa"
)

// ---------------------------------------------------------------------------------------------
// Facts: atomic propositions generated on CFG edges from branch conditions.
//
// A Fact is either a boolean value being true/false (Op==ILLEGAL, Y==nil) or a comparison X Op Y.
// Comparisons are normalised so that a fact is always asserted positively (negation flips Op).
// Constants are interned so that facts are comparable with ==.

type Fact struct {
	Op  token.Token // ILLEGAL for boolean value facts
	X   ssa.Value
	Y   ssa.Value // nil for boolean value facts
	Pol bool      // only for boolean value facts
}

func (f Fact) Neg() Fact {
	if f.Op == token.ILLEGAL {
		return Fact{X: f.X, Pol: !f.Pol}
	}
	return Fact{Op: negOp(f.Op), X: f.X, Y: f.Y}
}

func negOp(op token.Token) token.Token {
	switch op {
	case token.EQL:
		return token.NEQ
	case token.NEQ:
		return token.EQL
	case token.LSS:
		return token.GEQ
	case token.GEQ:
		return token.LSS
	case token.GTR:
		return token.LEQ
	case token.LEQ:
		return token.GTR
	}
	return token.ILLEGAL
}

func swapOp(op token.Token) token.Token {
	switch op {
	case token.LSS:
		return token.GTR
	case token.GTR:
		return token.LSS
	case token.LEQ:
		return token.GEQ
	case token.GEQ:
		return token.LEQ
	}
	return op
}

func (f Fact) String() string {
	if f.Op == token.ILLEGAL {
		if f.Pol {
			return ValStr(f.X)
		}
		return "!" + ValStr(f.X)
	}
	return ValStr(f.X) + " " + f.Op.String() + " " + ValStr(f.Y)
}

// Conj is a conjunction of facts (one disjunct of a DNF state), stored as a bitset over interned fact ids.
type Conj struct {
	fa   *Facts
	bits []uint64
}

func (fa *Facts) NewConj() Conj { return Conj{fa: fa} }

func (fa *Facts) idOf(f Fact) int {
	if id, ok := fa.ids[f]; ok {
		return id
	}
	id := len(fa.byID)
	fa.ids[f] = id
	fa.byID = append(fa.byID, f)
	return id
}

func (c Conj) hasID(id int) bool {
	w := id >> 6
	return w < len(c.bits) && c.bits[w]&(1<<(uint(id)&63)) != 0
}

func (c Conj) Has(f Fact) bool {
	id, ok := c.fa.ids[f]
	return ok && c.hasID(id)
}

// With returns a copy of c with f added.
func (c Conj) With(f Fact) Conj {
	n := c.clone()
	n.add(f)
	return n
}

func (c *Conj) add(f Fact) {
	id := c.fa.idOf(f)
	w := id >> 6
	for len(c.bits) <= w {
		c.bits = append(c.bits, 0)
	}
	c.bits[w] |= 1 << (uint(id) & 63)
}

func (c *Conj) delID(id int) {
	w := id >> 6
	if w < len(c.bits) {
		c.bits[w] &^= 1 << (uint(id) & 63)
	}
}

func (c Conj) Len() int {
	n := 0
	for _, w := range c.bits {
		n += bits.OnesCount64(w)
	}
	return n
}

// List returns the facts of the conjunction.
func (c Conj) List() []Fact {
	var out []Fact
	for wi, w := range c.bits {
		for w != 0 {
			b := bits.TrailingZeros64(w)
			out = append(out, c.fa.byID[wi*64+b])
			w &^= 1 << uint(b)
		}
	}
	return out
}

func (c Conj) ids() []int {
	var out []int
	for wi, w := range c.bits {
		for w != 0 {
			b := bits.TrailingZeros64(w)
			out = append(out, wi*64+b)
			w &^= 1 << uint(b)
		}
	}
	return out
}

func (c Conj) clone() Conj {
	n := Conj{fa: c.fa, bits: make([]uint64, len(c.bits), len(c.bits)+1)}
	copy(n.bits, c.bits)
	return n
}

func (c Conj) subsetOf(d Conj) bool {
	for i, w := range c.bits {
		if w == 0 {
			continue
		}
		if i >= len(d.bits) || w&^d.bits[i] != 0 {
			return false
		}
	}
	return true
}

func (c Conj) equal(d Conj) bool { return c.subsetOf(d) && d.subsetOf(c) }

func (c Conj) commonCount(d Conj) int {
	n := 0
	for i, w := range c.bits {
		if i < len(d.bits) {
			n += bits.OnesCount64(w & d.bits[i])
		}
	}
	return n
}

// symDiffIDs: ids of the facts in exactly one of c and d.
func (c Conj) symDiffIDs(d Conj) []int {
	var out []int
	n := len(c.bits)
	if len(d.bits) > n {
		n = len(d.bits)
	}
	for i := 0; i < n; i++ {
		var a, b uint64
		if i < len(c.bits) {
			a = c.bits[i]
		}
		if i < len(d.bits) {
			b = d.bits[i]
		}
		x := a ^ b
		for x != 0 {
			t := bits.TrailingZeros64(x)
			out = append(out, i*64+t)
			x &^= 1 << uint(t)
		}
	}
	return out
}

func (c Conj) intersect(d Conj) Conj {
	n := Conj{fa: c.fa}
	for i, w := range c.bits {
		if i < len(d.bits) {
			n.bits = append(n.bits, w&d.bits[i])
		}
	}
	return n
}

func (c Conj) Strings() []string {
	var s []string
	for _, f := range c.List() {
		s = append(s, f.String())
	}
	sort.Strings(s)
	return s
}

// DNF: nil means unreachable; a DNF containing an empty Conj means "nothing known".
type DNF []Conj

func (d DNF) String() string {
	if d == nil {
		return "unreachable"
	}
	var parts []string
	for _, c := range d {
		parts = append(parts, "{"+strings.Join(c.Strings(), " ∧ ")+"}")
	}
	sort.Strings(parts)
	return strings.Join(parts, " ∨ ")
}

// All reports whether every disjunct satisfies pred (vacuously true when unreachable).
func (d DNF) All(pred func(Conj) bool) bool {
	for _, c := range d {
		if !pred(c) {
			return false
		}
	}
	return true
}

// ---------------------------------------------------------------------------------------------

type constKey struct {
	typ string
	val string
}

// Facts holds per-program interning tables and per-function memoised dataflow results.
type Facts struct {
	ids       map[Fact]int
	byID      []Fact
	consts    map[constKey]*ssa.Const
	states    map[*ssa.Function]map[*ssa.BasicBlock]DNF
	Cap       int
	lens      map[lenKey]ssa.Value
	storeMemo map[string]bool
	// statistics
	Overflow int
	Analysed int
}

type lenKey struct {
	root ssa.Value
	path string
}

// storesField: fn (or a closure in it) stores to a field whose name is the last element of path
func (fa *Facts) storesField(fn *ssa.Function, path string) bool {
	name := path
	if i := strings.LastIndex(path, "."); i >= 0 {
		name = path[i+1:]
	}
	key := fn.String() + "|" + name
	if r, ok := fa.storeMemo[key]; ok {
		return r
	}
	found := false
	var scan func(f *ssa.Function)
	scan = func(f *ssa.Function) {
		for _, b := range f.Blocks {
			for _, in := range b.Instrs {
				if st, ok := in.(*ssa.Store); ok {
					if fad, ok := st.Addr.(*ssa.FieldAddr); ok && fieldName(fad.X.Type(), fad.Field) == name {
						found = true
					}
				}
			}
		}
		for _, a := range f.AnonFuncs {
			scan(a)
		}
	}
	scan(fn)
	if fa.storeMemo == nil {
		fa.storeMemo = map[string]bool{}
	}
	fa.storeMemo[key] = found
	return found
}

func NewFacts() *Facts {
	return &Facts{ids: map[Fact]int{}, consts: map[constKey]*ssa.Const{}, states: map[*ssa.Function]map[*ssa.BasicBlock]DNF{}, Cap: 64}
}

// Canon interns constants and strips value-preserving wrappers.
func (fa *Facts) Canon(v ssa.Value) ssa.Value {
	for {
		switch x := v.(type) {
		case *ssa.Call:
			// len(<field path of a parameter / receiver>) read several times in a function that never stores to
			// that field is one quantity: go/ssa has no common-subexpression elimination, so `len(c.List) < 1`
			// tested twice would otherwise be two unrelated facts
			if b, ok := x.Call.Value.(*ssa.Builtin); ok && b.Name() == "len" && len(x.Call.Args) == 1 {
				if root, path, ok := FieldPath(Unwrap(x.Call.Args[0])); ok {
					if _, isParam := root.(*ssa.Parameter); isParam && !fa.storesField(x.Parent(), path) {
						key := lenKey{root, path}
						if rep, seen := fa.lens[key]; seen {
							return rep
						}
						if fa.lens == nil {
							fa.lens = map[lenKey]ssa.Value{}
						}
						fa.lens[key] = x
					}
				}
			}
			return v
		case *ssa.ChangeType:
			v = x.X
			continue
		case *ssa.UnOp:
			// a variable kept in a cell (a named result captured by a deferred closure, an address-taken local)
			// read straight after it was assigned: the value read is the value stored
			if x.Op == token.MUL {
				if fwd := storeForwarded(x); fwd != nil {
					v = fwd
					continue
				}
			}
			return v
		case *ssa.MakeInterface:
			// keep: interface != nil comparisons need the wrapper to be seen as non-nil
			return v
		case *ssa.Const:
			val := "nil"
			if x.Value != nil {
				val = x.Value.ExactString()
			}
			t := x.Type().String()
			if x.Value == nil {
				t = "" // every nil is the same nil for our purposes
			} else if b, ok := x.Type().Underlying().(*types.Basic); ok {
				t = basicClass(b)
			}
			k := constKey{t, val}
			if c, ok := fa.consts[k]; ok {
				return c
			}
			fa.consts[k] = x
			return x
		}
		return v
	}
}

// storeForwarded: for a load of a local cell, the value of the store to that cell which precedes the load in the
// same block with nothing in between that could write the cell (no call, no other store through a pointer).
func storeForwarded(ld *ssa.UnOp) ssa.Value {
	cell, ok := ld.X.(*ssa.Alloc)
	if !ok || ld.Block() == nil {
		return nil
	}
	instrs := ld.Block().Instrs
	at := -1
	for i, in := range instrs {
		if in == ssa.Instruction(ld) {
			at = i
			break
		}
	}
	for i := at - 1; i >= 0; i-- {
		switch in := instrs[i].(type) {
		case *ssa.Store:
			if in.Addr == ssa.Value(cell) {
				return in.Val
			}
			if _, direct := in.Addr.(*ssa.Alloc); !direct {
				if _, isFA := in.Addr.(*ssa.FieldAddr); !isFA {
					if _, isIA := in.Addr.(*ssa.IndexAddr); !isIA {
						return nil // a store through some other pointer
					}
				}
			}
		case ssa.CallInstruction:
			return nil
		case *ssa.Select, *ssa.Send, *ssa.MapUpdate, *ssa.RunDefers:
			return nil
		}
	}
	return nil
}

func basicClass(b *types.Basic) string {
	switch {
	case b.Info()&types.IsString != 0:
		return "string"
	case b.Info()&types.IsBoolean != 0:
		return "bool"
	case b.Info()&types.IsNumeric != 0:
		return "num"
	}
	return b.String()
}

// CondFacts decomposes a branch condition into the facts that hold when it evaluates to pol.
func (fa *Facts) CondFacts(cond ssa.Value, pol bool) []Fact {
	cond = fa.Canon(cond)
	switch x := cond.(type) {
	case *ssa.UnOp:
		if x.Op == token.NOT {
			return fa.CondFacts(x.X, !pol)
		}
	case *ssa.BinOp:
		switch x.Op {
		case token.EQL, token.NEQ, token.LSS, token.LEQ, token.GTR, token.GEQ:
			op := x.Op
			if !pol {
				op = negOp(op)
			}
			X, Y := fa.Canon(x.X), fa.Canon(x.Y)
			// comparison of a bool with a bool constant collapses to a value fact
			if c, ok := Y.(*ssa.Const); ok && c.Value != nil && c.Value.Kind() == constant.Bool && (op == token.EQL || op == token.NEQ) {
				b := constant.BoolVal(c.Value)
				if op == token.NEQ {
					b = !b
				}
				return fa.CondFacts(X, b)
			}
			// constant on the right
			if _, ok := X.(*ssa.Const); ok {
				if _, ok2 := Y.(*ssa.Const); !ok2 {
					X, Y = Y, X
					op = swapOp(op)
				}
			}
			return []Fact{{Op: op, X: X, Y: Y}}
		}
	case *ssa.Const:
		return nil
	}
	return []Fact{{X: cond, Pol: pol}}
}

func definedIn(v ssa.Value, b *ssa.BasicBlock) bool {
	if in, ok := v.(ssa.Instruction); ok {
		return in.Block() == b
	}
	return false
}

// contradicts: does adding f to c make it unsatisfiable (syntactically)?
func contradicts(c Conj, f Fact) bool {
	if c.Has(f.Neg()) {
		return true
	}
	if f.Op == token.EQL {
		if fc, ok := f.Y.(*ssa.Const); ok {
			for _, g := range c.List() {
				if g.Op == token.EQL && g.X == f.X && g.Y != f.Y {
					if gc, ok := g.Y.(*ssa.Const); ok && !constEqual(fc, gc) {
						return true
					}
				}
			}
		}
	}
	return false
}

func constEqual(a, b *ssa.Const) bool {
	if a.Value == nil || b.Value == nil {
		return a.Value == nil && b.Value == nil
	}
	if a.Value.Kind() != b.Value.Kind() {
		return false
	}
	return constant.Compare(a.Value, token.EQL, b.Value)
}

// States computes (memoised) the DNF state at the entry of every block of fn.
func (fa *Facts) States(fn *ssa.Function) map[*ssa.BasicBlock]DNF {
	if st, ok := fa.states[fn]; ok {
		return st
	}
	st := fa.compute(fn, fa.Cap)
	if st == nil {
		// the widening did not settle with this many disjuncts: retry with fewer (each step keeps less, the last one
		// keeps a single conjunction and always terminates)
		fa.Overflow++
		for _, cap := range []int{16, 4, 2, 1} {
			if cap >= fa.Cap {
				continue
			}
			if st = fa.compute(fn, cap); st != nil {
				break
			}
		}
	}
	fa.states[fn] = st
	fa.Analysed++
	return st
}

// At returns the state holding at an instruction (facts change only on edges).
func (fa *Facts) At(in ssa.Instruction) DNF {
	if in.Block() == nil {
		return DNF{fa.NewConj()}
	}
	return fa.States(in.Parent())[in.Block()]
}

// OnEdge returns the facts that hold when control moves from pred to succ (succ's phi facts included).
func (fa *Facts) OnEdge(pred, succ *ssa.BasicBlock) DNF {
	st := fa.States(pred.Parent())
	for i, p := range succ.Preds {
		if p == pred {
			return fa.transfer(st[pred], pred, succ, i)
		}
	}
	return nil
}

func (fa *Facts) edgeFacts(pred, succ *ssa.BasicBlock) []Fact {
	if len(pred.Instrs) == 0 {
		return nil
	}
	iff, ok := pred.Instrs[len(pred.Instrs)-1].(*ssa.If)
	if !ok {
		return nil
	}
	if pred.Succs[0] == pred.Succs[1] {
		return nil
	}
	return fa.CondFacts(iff.Cond, pred.Succs[0] == succ)
}

func (fa *Facts) transfer(in DNF, pred, succ *ssa.BasicBlock, predIdx int) DNF {
	if in == nil {
		return nil
	}
	ef := fa.edgeFacts(pred, succ)
	out := DNF{}
	for _, c := range in {
		feasible := true
		for _, f := range ef {
			if contradicts(c, f) {
				feasible = false
				break
			}
		}
		if !feasible {
			continue
		}
		n := c.clone()
		for _, f := range ef {
			n.add(f)
		}
		// phi facts (computed from the pre-kill conjunction)
		var add []Fact
		nList := n.List()
		for _, ins := range succ.Instrs {
			phi, ok := ins.(*ssa.Phi)
			if !ok {
				break
			}
			op := fa.Canon(phi.Edges[predIdx])
			if k, ok := op.(*ssa.Const); ok {
				if k.Value != nil && k.Value.Kind() == constant.Bool {
					add = append(add, Fact{X: phi, Pol: constant.BoolVal(k.Value)})
				} else {
					add = append(add, Fact{Op: token.EQL, X: phi, Y: k})
				}
				continue
			}
			if nilness(op) == +1 {
				// an error (or pointer) freshly made on this path: the merged value is not nil here
				switch phi.Type().Underlying().(type) {
				case *types.Interface, *types.Pointer:
					add = append(add, Fact{Op: token.NEQ, X: phi, Y: fa.Canon(ssa.NewConst(nil, phi.Type()))})
				}
			}
			isDur := NamedTypeOf(phi.Type()) == "time.Duration"
			if b, ok := phi.Type().Underlying().(*types.Basic); ok && (b.Info()&types.IsString != 0 || isDur) {
				// provenance of string-valued phis (user names etc.) and of durations: on this path the phi IS the operand
				add = append(add, Fact{Op: token.EQL, X: phi, Y: op})
			} else if ok && b.Info()&types.IsBoolean != 0 {
				// a verdict merged from call results: remember which call's verdict it is on this path (flag webs
				// merged from other phis or comparisons are not tracked; they would multiply the disjuncts)
				if cl, _ := callResult(op); cl != nil {
					add = append(add, Fact{Op: token.EQL, X: phi, Y: op})
				} else if _, isCmp := op.(*ssa.BinOp); isCmp {
					// the right operand of && / ||: the merged value is that comparison on this path
					add = append(add, Fact{Op: token.EQL, X: phi, Y: op})
				}
			}
			for _, g := range nList {
				if g.X == op {
					if g.Op == token.ILLEGAL {
						add = append(add, Fact{X: phi, Pol: g.Pol})
					} else if _, isC := g.Y.(*ssa.Const); isC {
						add = append(add, Fact{Op: g.Op, X: phi, Y: g.Y})
					}
				}
			}
		}
		// kill facts about values (re)defined in succ
		for _, id := range n.ids() {
			g := fa.byID[id]
			if definedIn(g.X, succ) || (g.Y != nil && definedIn(g.Y, succ)) {
				n.delID(id)
			}
		}
		for _, f := range add {
			if f.Y != nil && definedIn(f.Y, succ) {
				continue
			}
			n.add(f)
		}
		out = append(out, n)
	}
	return out
}

func prune(d DNF, cap int, at *ssa.BasicBlock) DNF {
	if d == nil {
		return nil
	}
	// remove disjuncts that are supersets of another (A ∨ (A∧B) = A)
	lens := make([]int, len(d))
	idx := make([]int, len(d))
	for i := range d {
		lens[i] = d[i].Len()
		idx[i] = i
	}
	sort.SliceStable(idx, func(i, j int) bool { return lens[idx[i]] < lens[idx[j]] })
	out := DNF{}
	for _, i := range idx {
		c := d[i]
		red := false
		for _, k := range out {
			if k.subsetOf(c) {
				red = true
				break
			}
		}
		if !red {
			out = append(out, c)
		}
	}
	for len(out) > cap {
		if cap <= 1 {
			m := out[0]
			for _, c := range out[1:] {
				m = m.intersect(c)
			}
			return DNF{m}
		}
		// widen: merge the two disjuncts that lose the fewest facts when replaced by their intersection; among the
		// pairs that lose equally few, the one that loses the fewest facts about values that can still be tested
		// from here on (their definitions dominate this block) - otherwise the pair that differs only in the newest
		// comparison is as cheap as one that differs in a comparison of a loop body already left, and the newest
		// comparison is the one a later gate needs.
		ls := make([]int, len(out))
		for i := range out {
			ls[i] = out[i].Len()
		}
		best := 1 << 30
		for i := 0; i < len(out); i++ {
			for j := i + 1; j < len(out); j++ {
				if loss := ls[i] + ls[j] - 2*out[i].commonCount(out[j]); loss < best {
					best = loss
				}
			}
		}
		fa := out[0].fa
		live := map[int]bool{}
		isLive := func(id int) bool {
			if l, ok := live[id]; ok {
				return l
			}
			l := true
			f := fa.byID[id]
			for _, v := range []ssa.Value{f.X, f.Y} {
				if in, ok := v.(ssa.Instruction); ok && at != nil && in.Block() != nil && in.Block() != at && !in.Block().Dominates(at) {
					l = false
				}
			}
			live[id] = l
			return l
		}
		bi, bj, bestLive := -1, -1, 1<<30
		for i := 0; i < len(out) && bestLive > 0; i++ {
			for j := i + 1; j < len(out); j++ {
				if ls[i]+ls[j]-2*out[i].commonCount(out[j]) != best {
					continue
				}
				n := 0
				for _, id := range out[i].symDiffIDs(out[j]) {
					if isLive(id) {
						n++
					}
				}
				if n < bestLive {
					bi, bj, bestLive = i, j, n
					if n == 0 {
						break
					}
				}
			}
		}
		m := out[bi].intersect(out[bj])
		var next DNF
		for k, c := range out {
			if k == bi || k == bj {
				continue
			}
			if m.subsetOf(c) {
				continue // subsumed by the merged disjunct
			}
			next = append(next, c)
		}
		out = append(next, m)
	}
	return out
}

func dnfEqual(a, b DNF) bool {
	if (a == nil) != (b == nil) || len(a) != len(b) {
		return false
	}
	for _, c := range a {
		found := false
		for _, k := range b {
			if c.equal(k) {
				found = true
				break
			}
		}
		if !found {
			return false
		}
	}
	return true
}

func (fa *Facts) compute(fn *ssa.Function, cap int) map[*ssa.BasicBlock]DNF {
	st := map[*ssa.BasicBlock]DNF{}
	if len(fn.Blocks) == 0 {
		return st
	}
	st[fn.Blocks[0]] = DNF{fa.NewConj()}
	// reverse post-order
	order := rpo(fn)
	for iter := 0; iter < 40; iter++ {
		changed := false
		for _, b := range order {
			if b == fn.Blocks[0] {
				continue
			}
			var joined DNF
			reach := false
			for i, p := range b.Preds {
				in := st[p]
				if in == nil {
					continue
				}
				out := fa.transfer(in, p, b, i)
				if out == nil {
					continue
				}
				reach = true
				joined = append(joined, out...)
			}
			if !reach {
				continue
			}
			if joined == nil {
				joined = DNF{} // reachable in CFG, but all incoming paths infeasible so far
			}
			joined = prune(joined, cap, b)
			if !dnfEqual(st[b], joined) {
				st[b] = joined
				changed = true
			}
		}
		if !changed {
			return st
		}
	}
	if cap == 1 {
		// give up: nothing known anywhere (sound)
		for _, b := range fn.Blocks {
			st[b] = DNF{fa.NewConj()}
		}
		return st
	}
	return nil
}

func rpo(fn *ssa.Function) []*ssa.BasicBlock {
	seen := map[*ssa.BasicBlock]bool{}
	var post []*ssa.BasicBlock
	var dfs func(b *ssa.BasicBlock)
	dfs = func(b *ssa.BasicBlock) {
		seen[b] = true
		for _, s := range b.Succs {
			if !seen[s] {
				dfs(s)
			}
		}
		post = append(post, b)
	}
	dfs(fn.Blocks[0])
	for i, j := 0, len(post)-1; i < j; i, j = i+1, j-1 {
		post[i], post[j] = post[j], post[i]
	}
	return post
}

// ---------------------------------------------------------------------------------------------
// Printing helpers

// ValStr renders an SSA value as a compact source-like expression.
func ValStr(v ssa.Value) string { return valStr(v, 0) }

func valStr(v ssa.Value, depth int) string {
	if v == nil {
		return "<nil>"
	}
	if depth > 6 {
		return v.Name()
	}
	switch x := v.(type) {
	case *ssa.Const:
		if x.Value == nil {
			return "nil"
		}
		s := x.Value.ExactString()
		if len(s) > 40 {
			s = s[:40] + "…"
		}
		return s
	case *ssa.Parameter:
		return RecordedParamName(x)
	case *ssa.FreeVar:
		return x.Name()
	case *ssa.Global:
		return x.Name()
	case *ssa.Function:
		return x.Name()
	case *ssa.FieldAddr:
		return "&" + valStr(x.X, depth+1) + "." + fieldName(x.X.Type(), x.Field)
	case *ssa.Field:
		return valStr(x.X, depth+1) + "." + fieldName(x.X.Type(), x.Field)
	case *ssa.UnOp:
		if x.Op == token.MUL {
			s := valStr(x.X, depth+1)
			if strings.HasPrefix(s, "&") {
				return s[1:]
			}
			return "*" + s
		}
		return x.Op.String() + valStr(x.X, depth+1)
	case *ssa.BinOp:
		return "(" + valStr(x.X, depth+1) + " " + x.Op.String() + " " + valStr(x.Y, depth+1) + ")"
	case *ssa.Call:
		var args []string
		for _, a := range x.Call.Args {
			args = append(args, valStr(a, depth+2))
		}
		return CalleeShort(x.Common()) + "(" + strings.Join(args, ", ") + ")"
	case *ssa.Extract:
		return valStr(x.Tuple, depth+1) + fmt.Sprintf("#%d", x.Index)
	case *ssa.Phi:
		if x.Comment != "" {
			return "φ" + x.Comment
		}
		return "φ" + x.Name()
	case *ssa.Alloc:
		if x.Comment != "" {
			return x.Comment
		}
		return x.Name()
	case *ssa.MakeInterface:
		return valStr(x.X, depth)
	case *ssa.ChangeType:
		return valStr(x.X, depth)
	case *ssa.Convert:
		return types.TypeString(x.Type(), func(*types.Package) string { return "" }) + "(" + valStr(x.X, depth+1) + ")"
	case *ssa.TypeAssert:
		return valStr(x.X, depth+1) + ".(T)"
	case *ssa.IndexAddr:
		return "&" + valStr(x.X, depth+1) + "[" + valStr(x.Index, depth+1) + "]"
	case *ssa.Index:
		return valStr(x.X, depth+1) + "[" + valStr(x.Index, depth+1) + "]"
	case *ssa.Lookup:
		return valStr(x.X, depth+1) + "[" + valStr(x.Index, depth+1) + "]"
	case *ssa.Slice:
		return valStr(x.X, depth+1) + "[:]"
	}
	return v.Name()
}

func fieldName(t types.Type, idx int) string {
	if p, ok := t.Underlying().(*types.Pointer); ok {
		t = p.Elem()
	}
	if st, ok := t.Underlying().(*types.Struct); ok && idx < st.NumFields() {
		return recordedField(t, st.Field(idx).Name())
	}
	return fmt.Sprintf("f%d", idx)
}
