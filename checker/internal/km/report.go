package km

import (
	"encoding/json"
	"fmt"
	"os"
	"path/filepath"
	"sort"
	"strings"
	"time"
)

// Obligation is one instance of a rule at one construct of the analysed source.
type Obligation struct {
	Rule      string `json:"rule"`
	Func      string `json:"func"`      // enclosing function (short name)
	Construct string `json:"construct"` // resolved callee / field / constant the rule instance is about
	Ord       int    `json:"ord"`       // ordinal among identical (rule,func,construct)
	Pos       string `json:"pos"`
	Required  string `json:"required"`
	Found     string `json:"found"`
	OK        bool   `json:"ok"`
	Trivial   bool   `json:"-"`
}

func (o *Obligation) Key() string {
	k := o.Rule + "|" + o.Func + "|" + o.Construct
	if o.Ord > 0 {
		k += fmt.Sprintf("#%d", o.Ord)
	}
	return k
}

type KnownFinding struct {
	Property  string `json:"property"`
	Rule      string `json:"rule"`
	Construct string `json:"construct"` // "<func>|<construct>[#ord]"
	WhatFails string `json:"what_fails"`
	Status    string `json:"status"` // "known" | "fixed"
	Commit    string `json:"commit,omitempty"`
}

type Report struct {
	Prop     string
	Tier     string
	Seed     int
	VerifDir string
	start    time.Time

	Obls       []*Obligation
	ordCount   map[string]int
	minInst    map[string]int
	ruleText   map[string]string
	ruleOrder  []string
	borrowed   []string
	Notes      []string
	Fatal      []string // loader / anchor failures
	Extra      map[string]any
	Assume     []string
	Explain    string
	NotDecided []string
	// Remap, when set, lets one property borrow the obligations of another property's rule function: it maps
	// (rule, func, construct) to the borrowing rule id, or drops the obligation (keep == false).
	Remap func(rule, fn, construct string) (string, bool)
}

func NewReport(prop, tier, verifDir string, seed int) *Report {
	return &Report{Prop: prop, Tier: tier, Seed: seed, VerifDir: verifDir, start: time.Now(),
		ordCount: map[string]int{}, minInst: map[string]int{}, ruleText: map[string]string{}, Extra: map[string]any{}}
}

// Rule declares a rule, its text and the minimum number of instances confirmed by hand on the pinned tree.
func (r *Report) Rule(id, text string, min int) {
	if r.Remap != nil {
		if _, declared := r.ruleText[id]; !declared {
			// rules of the lending property are declared silently (no vacuity floor of their own)
			r.ruleText[id] = text
			r.minInst[id] = 0
			r.borrowed = append(r.borrowed, id)
		}
		return
	}
	if _, ok := r.ruleText[id]; !ok {
		r.ruleOrder = append(r.ruleOrder, id)
	}
	r.ruleText[id] = text
	r.minInst[id] = min
}

// Add records an obligation; ordinal is assigned per (rule,func,construct) in call order, so callers must
// iterate sites in a deterministic (source) order.
func (r *Report) Add(rule, fn, construct, pos, required, found string, ok bool) *Obligation {
	if r.Remap != nil {
		nr, keep := r.Remap(rule, fn, construct)
		if !keep {
			return &Obligation{}
		}
		rule = nr
	}
	if _, declared := r.ruleText[rule]; !declared {
		panic("undeclared rule " + rule)
	}
	base := rule + "|" + fn + "|" + construct
	ord := r.ordCount[base]
	r.ordCount[base] = ord + 1
	o := &Obligation{Rule: rule, Func: fn, Construct: construct, Ord: ord, Pos: pos, Required: required, Found: found, OK: ok}
	r.Obls = append(r.Obls, o)
	return o
}

// AnchorLost records that a mechanism the rule needs could not be located in the source.
func (r *Report) AnchorLost(rule, anchor string) {
	if r.Remap != nil {
		nr, keep := r.Remap(rule, "", anchor)
		if !keep {
			return
		}
		rule = nr
	}
	r.Fatal = append(r.Fatal, fmt.Sprintf("ANCHOR-LOST rule=%s anchor=%s", rule, anchor))
}

func (r *Report) Notef(format string, a ...any) { r.Notes = append(r.Notes, fmt.Sprintf(format, a...)) }

func loadKnown(verifDir string) ([]KnownFinding, error) {
	b, err := os.ReadFile(filepath.Join(verifDir, "known_findings.json"))
	if err != nil {
		if os.IsNotExist(err) {
			return nil, nil
		}
		return nil, err
	}
	var doc struct {
		Findings []KnownFinding `json:"findings"`
	}
	if err := json.Unmarshal(b, &doc); err != nil {
		return nil, err
	}
	return doc.Findings, nil
}

// Finish prints the verdict lines, writes evidence and replay files and returns the process exit code.
func (r *Report) Finish() int {
	known, kerr := loadKnown(r.VerifDir)
	if kerr != nil {
		r.Fatal = append(r.Fatal, "known_findings.json unreadable: "+kerr.Error())
	}
	knownSet := map[string]KnownFinding{}
	for _, k := range known {
		if k.Property == r.Prop && k.Status == "known" {
			knownSet[k.Rule+"|"+k.Construct] = k
		}
	}
	perRule := map[string][]*Obligation{}
	for _, o := range r.Obls {
		perRule[o.Rule] = append(perRule[o.Rule], o)
	}
	var violations []map[string]any
	nKnown := 0
	usedKnown := map[string]bool{}
	for _, id := range r.ruleOrder {
		obls := perRule[id]
		nOK := 0
		for _, o := range obls {
			if o.OK {
				nOK++
			}
		}
		fmt.Printf("RULE %s instances=%d ok=%d min=%d\n", id, len(obls), nOK, r.minInst[id])
		if len(obls) < r.minInst[id] {
			violations = append(violations, map[string]any{"kind": "vacuity", "rule": id, "text": r.ruleText[id],
				"detail": fmt.Sprintf("rule matched %d instances, at least %d were confirmed by hand on the pinned tree; the mechanism the rule guards has disappeared or changed shape", len(obls), r.minInst[id])})
		}
		for _, o := range obls {
			if o.OK {
				continue
			}
			if k, ok := knownSet[o.Key()]; ok {
				nKnown++
				usedKnown[o.Key()] = true
				fmt.Printf("KNOWN-FINDING: property=%s rule=%s at %s in %s: %s\n", r.Prop, o.Rule, o.Pos, o.Func, k.WhatFails)
				continue
			}
			violations = append(violations, map[string]any{"kind": "obligation", "rule": o.Rule, "text": r.ruleText[o.Rule], "key": o.Key(),
				"func": o.Func, "construct": o.Construct, "pos": o.Pos, "required": o.Required, "found": o.Found})
		}
	}
	for _, f := range r.Fatal {
		violations = append(violations, map[string]any{"kind": "fatal", "detail": f})
	}
	for _, n := range r.Notes {
		fmt.Printf("NOTE %s\n", n)
	}
	for k := range knownSet {
		if !usedKnown[k] {
			fmt.Printf("NOTE known finding %s no longer fails (stale entry in known_findings.json)\n", k)
		}
	}
	// replay files
	replayDir := filepath.Join(r.VerifDir, "evidence", "replay")
	os.MkdirAll(replayDir, 0o755)
	old, _ := filepath.Glob(filepath.Join(replayDir, r.Prop+"-*.json"))
	for _, f := range old {
		os.Remove(f)
	}
	for i, v := range violations {
		v["property"] = r.Prop
		path := filepath.Join(replayDir, fmt.Sprintf("%s-%d.json", r.Prop, i))
		b, _ := json.MarshalIndent(v, "", " ")
		os.WriteFile(path, b, 0o644)
		switch v["kind"] {
		case "obligation":
			fmt.Printf("FAIL %s at %s in %s [%s]\n     required: %s\n     found:    %s\n", v["rule"], v["pos"], v["func"], v["construct"], v["required"], v["found"])
		default:
			fmt.Printf("FAIL %v %v\n", v["rule"], v["detail"])
		}
		fmt.Printf("VIOLATION property=%s replay=%s\n", r.Prop, path)
	}
	r.writeEvidence(len(violations), nKnown)
	if len(violations) > 0 {
		return 1
	}
	fmt.Printf("PASS property=%s obligations=%d known_findings=%d\n", r.Prop, len(r.Obls), nKnown)
	return 0
}

func (r *Report) writeEvidence(nViol, nKnown int) {
	distinct := map[string]bool{}
	discharged := 0
	var samples []any
	perRuleSample := map[string]int{}
	for _, o := range r.Obls {
		if o.OK {
			discharged++
		}
		if !o.Trivial {
			distinct[o.Key()] = true
		}
		if perRuleSample[o.Rule] < 2 {
			perRuleSample[o.Rule]++
			samples = append(samples, o)
		}
	}
	var rules []string
	ruleCounts := map[string]int{}
	for _, o := range r.Obls {
		ruleCounts[o.Rule]++
	}
	for _, id := range r.ruleOrder {
		rules = append(rules, fmt.Sprintf("%s (%d instances, min %d): %s", id, ruleCounts[id], r.minInst[id], r.ruleText[id]))
	}
	if samples == nil {
		samples = []any{"(no obligations generated)"}
	}
	cov := map[string]any{
		"explanation":         r.Explain,
		"evaluations":         len(r.Obls),
		"distinct_nontrivial": len(distinct),
		"rule":                "one obligation per (rule, enclosing function, resolved construct, ordinal) found in /repo's current source; distinct = distinct keys; an obligation is non-trivial when its required formula is non-empty. Rules: " + strings.Join(rules, " || "),
		"samples":             samples,
		"obligations":         len(r.Obls),
		"discharged":          discharged,
		"known_findings":      nKnown,
		"not_decided":         r.NotDecided,
		"notes":               r.Notes,
	}
	keys := make([]string, 0, len(r.Extra))
	for k := range r.Extra {
		keys = append(keys, k)
	}
	sort.Strings(keys)
	for _, k := range keys {
		cov[k] = r.Extra[k]
	}
	ev := map[string]any{
		"property_id": r.Prop,
		"tier":        r.Tier,
		"seed":        r.Seed,
		"level":       "other",
		"coverage":    cov,
		"assumptions": r.Assume,
		"wall_s":      time.Since(r.start).Seconds(),
		"violations":  nViol,
	}
	dir := filepath.Join(r.VerifDir, "evidence")
	os.MkdirAll(dir, 0o755)
	b, _ := json.MarshalIndent(ev, "", " ")
	if err := os.WriteFile(filepath.Join(dir, r.Prop+".json"), b, 0o644); err != nil {
		fmt.Fprintf(os.Stderr, "cannot write evidence: %v\n", err)
	}
}
