package km

import (
	_ "embed"
	"encoding/json"
	"go/types"
	"reflect"
	"sort"
	"strings"
)

// Configuration keys. The YAML key under which a field of the configuration file is read is data the operator's
// existing file depends on: a field that gains, loses or changes its yaml tag is silently left at its zero value
// when the old file is loaded (yaml.v2 ignores unknown keys), and for several fields the zero value is the
// permissive one (an empty deny list, no rate limit, no required factor). The keys of the reviewed tree are
// recorded in pinned_configkeys.json ("pkgpath.Type.Field" -> key); the rules compare the keys of the fields their
// property depends on with the record.

//go:embed pinned_configkeys.json
var pinnedConfigKeysJSON []byte

func yamlKeyOf(st *types.Struct, i int) string {
	tag := reflect.StructTag(st.Tag(i)).Get("yaml")
	name := strings.Split(tag, ",")[0]
	if name == "" {
		return strings.ToLower(st.Field(i).Name())
	}
	return name
}

// configKeys walks the configuration structure from cmd/keymasterd.AppConfigFile through module-defined structs and
// returns, for every leaf and intermediate field, its dotted YAML key path (inlined structs add no level) with the
// printed Go type of the field.
func configKeys(p *Prog) map[string]string {
	out := map[string]string{}
	var root types.Type
	for _, pk := range p.Pkgs {
		if pk.PkgPath == ModPath+"/cmd/keymasterd" {
			if o := pk.Types.Scope().Lookup(CurrentShortTypeName(ModPath+"/cmd/keymasterd", "AppConfigFile")); o != nil {
				root = o.Type()
			}
		}
	}
	if root == nil {
		return out
	}
	var walk func(t types.Type, prefix string, depth int)
	walk = func(t types.Type, prefix string, depth int) {
		if depth > 8 {
			return
		}
		t = types.Unalias(t)
		switch x := t.(type) {
		case *types.Pointer:
			walk(x.Elem(), prefix, depth)
		case *types.Slice:
			walk(x.Elem(), prefix, depth+1)
		case *types.Map:
			walk(x.Elem(), prefix, depth+1)
		case *types.Named:
			if x.Obj().Pkg() == nil || !strings.HasPrefix(x.Obj().Pkg().Path(), ModPath) {
				return
			}
			st, ok := x.Underlying().(*types.Struct)
			if !ok {
				return
			}
			for i := 0; i < st.NumFields(); i++ {
				tag := reflect.StructTag(st.Tag(i)).Get("yaml")
				if strings.Contains(tag, ",inline") {
					walk(st.Field(i).Type(), prefix, depth+1)
					continue
				}
				if !st.Field(i).Exported() {
					continue
				}
				key := yamlKeyOf(st, i)
				path := key
				if prefix != "" {
					path = prefix + "." + key
				}
				kind := "value"
				switch st.Field(i).Type().Underlying().(type) {
				case *types.Struct:
					kind = "section"
				case *types.Slice:
					kind = "list"
				case *types.Map:
					kind = "map"
				}
				out[path] = kind
				if _, isStruct := st.Field(i).Type().Underlying().(*types.Struct); isStruct || true {
					walk(st.Field(i).Type(), path, depth+1)
				}
			}
		}
	}
	walk(root, "", 0)
	return out
}

// CurrentShortTypeName: the short name a recorded type of package pkg carries now.
func CurrentShortTypeName(pkg, recorded string) string {
	cur := CurrentTypeName(pkg + "." + recorded)
	if i := strings.LastIndex(cur, "."); i >= 0 {
		return cur[i+1:]
	}
	return cur
}

// ConfigKeysTable renders the table for the loaded tree (kmcheck -dump pinnedconfigkeys).
func ConfigKeysTable(p *Prog) []byte {
	m := configKeys(p)
	var ks []string
	for k := range m {
		ks = append(ks, k)
	}
	sort.Strings(ks)
	var rows [][2]string
	for _, k := range ks {
		rows = append(rows, [2]string{k, m[k]})
	}
	b, _ := json.MarshalIndent(rows, "", " ")
	return append(b, '\n')
}

// ConfigKeyDrift compares the recorded YAML key paths that start with one of the given prefixes with the loaded
// tree; it returns the number of paths compared and a description of each difference.
func ConfigKeyDrift(p *Prog, prefixes []string) (int, []string) {
	var rows [][2]string
	if json.Unmarshal(pinnedConfigKeysJSON, &rows) != nil {
		return 0, nil
	}
	cur := configKeys(p)
	n := 0
	var diffs []string
	for _, r := range rows {
		match := false
		for _, pre := range prefixes {
			if strings.HasPrefix(r[0], pre) {
				match = true
			}
		}
		if !match {
			continue
		}
		n++
		if _, has := cur[r[0]]; !has {
			diffs = append(diffs, "the key "+r[0]+" of existing configuration files is no longer read")
		}
	}
	return n, diffs
}
