package km

import (
	"fmt"
	"go/types"
	"sort"

	"golang.org/x/tools/go/ssa"
)

// Ctx bundles everything a property check needs.
type Ctx struct {
	P      *Prog
	F      *Facts
	G      *CallGraph
	Routes []Route
	R      *Report
	Tier   string
	// DepthBonus is added to every caller-chain depth bound (thorough tier)
	DepthBonus int
}

type CheckFunc func(c *Ctx)

var Registry = map[string]CheckFunc{}

func Register(prop string, f CheckFunc) { Registry[prop] = f }

func Props() []string {
	var s []string
	for k := range Registry {
		s = append(s, k)
	}
	sort.Strings(s)
	return s
}

func (p *Prog) methodOf(t types.Type, name string) *ssa.Function {
	ms := p.SSA.MethodSets.MethodSet(t)
	for i := 0; i < ms.Len(); i++ {
		if ms.At(i).Obj().Name() == name {
			return unwrapSynthetic(p.SSA.MethodValue(ms.At(i)))
		}
	}
	return nil
}

// NewCtx builds the shared analysis context; errors are fatal for every property.
func NewCtx(p *Prog, r *Report, tier string) (*Ctx, error) {
	c := &Ctx{P: p, F: NewFacts(), R: r, Tier: tier}
	if tier == "thorough" {
		// larger bounds: fewer widenings of the fact sets, longer caller chains before giving up
		c.F.Cap = 256
		c.DepthBonus = 4
	}
	r.Extra["dnf_cap"] = c.F.Cap
	r.Extra["caller_depth_bonus"] = c.DepthBonus
	c.G = BuildCallGraph(p)
	routes, err := p.Routes()
	if err != nil {
		return nil, fmt.Errorf("route table: %v", err)
	}
	c.Routes = routes
	return c, nil
}

// MustFunc resolves a function anchor or records ANCHOR-LOST.
func (c *Ctx) MustFunc(rule, rel, name string) *ssa.Function {
	f := c.P.Func(rel, name)
	if f == nil || f.Blocks == nil {
		c.R.AnchorLost(rule, rel+"."+name)
		return nil
	}
	return f
}

func (c *Ctx) Pos(in ssa.Instruction) string { return c.P.InstrPos(in) }

// InModule reports whether f belongs to a package of the analysed module.
func (c *Ctx) InModule(f *ssa.Function) bool { return c.inModule(f) }
