package km

import (
	"fmt"
	"go/token"
	"go/types"
	"os"
	"sort"
	"strings"
	"time"

	"golang.org/x/tools/go/packages"
	"golang.org/x/tools/go/ssa"
)

const ModPath = "github.com/Cloud-Foundations/keymaster"

// Prog is the loaded, type-checked, SSA-built view of /repo.
type Prog struct {
	RepoDir  string
	Fset     *token.FileSet
	Pkgs     []*packages.Package // module packages (initial)
	ByPath   map[string]*packages.Package
	SSA      *ssa.Program
	SSAPkg   map[string]*ssa.Package
	AllFuncs []*ssa.Function // every function with a body that belongs to a module package (incl. anonymous)
	LoadSecs float64
	// third-party packages with type errors (tolerated only for the known cgo-less hid package)
	ToleratedErrs []string
}

// GoEnv returns the environment used for every `go list` the loader performs.
func GoEnv() []string {
	env := []string{}
	for _, kv := range os.Environ() {
		k := kv
		if i := strings.IndexByte(kv, '='); i >= 0 {
			k = kv[:i]
		}
		switch k {
		case "GOFLAGS", "GOPROXY", "GOSUMDB", "GOTOOLCHAIN", "GOWORK", "CGO_ENABLED", "GOOS", "GOARCH", "PATH":
			continue
		}
		env = append(env, kv)
	}
	path := os.Getenv("PATH")
	if !strings.HasPrefix(path, "/opt/veriftools/go1.26.8/bin:") {
		path = "/opt/veriftools/go1.26.8/bin:" + path
		os.Setenv("PATH", path) // exec.LookPath("go") consults the process environment
	}
	env = append(env,
		"PATH="+path,
		"GOTOOLCHAIN=local", "GOFLAGS=-mod=mod", "GOPROXY=off", "GOSUMDB=off", "GOWORK=off",
		"CGO_ENABLED=0", "GOOS=linux", "GOARCH=amd64")
	return env
}

// Load type-checks every non-test package of the module from the current working tree and builds SSA
// for them (dependencies come from export data: their functions have no bodies).
func Load(repo string, overlay map[string][]byte) (*Prog, error) {
	t0 := time.Now()
	cfg := &packages.Config{
		Mode:    packages.LoadSyntax | packages.NeedModule,
		Dir:     repo,
		Env:     GoEnv(),
		Tests:   false,
		Overlay: overlay,
	}
	pkgs, err := packages.Load(cfg, "./...")
	if err != nil {
		return nil, fmt.Errorf("packages.Load: %v", err)
	}
	if len(pkgs) == 0 {
		return nil, fmt.Errorf("loader: zero packages")
	}
	p := &Prog{RepoDir: repo, ByPath: map[string]*packages.Package{}, SSAPkg: map[string]*ssa.Package{}}
	var errs []string
	packages.Visit(pkgs, nil, func(pk *packages.Package) {
		for _, e := range pk.Errors {
			if strings.HasPrefix(pk.PkgPath, ModPath) {
				errs = append(errs, fmt.Sprintf("%s: %s", pk.PkgPath, e.Error()))
			} else {
				p.ToleratedErrs = append(p.ToleratedErrs, pk.PkgPath)
			}
		}
	})
	if len(errs) > 0 {
		sort.Strings(errs)
		return nil, fmt.Errorf("type/load errors in module packages:\n  %s", strings.Join(errs, "\n  "))
	}
	for _, te := range p.ToleratedErrs {
		if te != "github.com/flynn/u2f/u2fhid" {
			return nil, fmt.Errorf("unexpected load error in dependency %s", te)
		}
	}
	sort.Slice(pkgs, func(i, j int) bool { return pkgs[i].PkgPath < pkgs[j].PkgPath })
	p.Pkgs = pkgs
	p.Fset = pkgs[0].Fset
	for _, pk := range pkgs {
		if !strings.HasPrefix(pk.PkgPath, ModPath) {
			return nil, fmt.Errorf("unexpected initial package %s", pk.PkgPath)
		}
		if pk.Types == nil || pk.TypesInfo == nil || len(pk.Syntax) == 0 {
			return nil, fmt.Errorf("package %s not fully loaded", pk.PkgPath)
		}
		p.ByPath[pk.PkgPath] = pk
	}
	var buildErr error
	func() {
		defer func() {
			if r := recover(); r != nil {
				buildErr = fmt.Errorf("SSA construction panicked: %v", r)
			}
		}()
		prog := ssa.NewProgram(pkgs[0].Fset, ssa.InstantiateGenerics)
		isInitial := map[*packages.Package]bool{}
		for _, pk := range pkgs {
			isInitial[pk] = true
		}
		created := map[*packages.Package]*ssa.Package{}
		packages.Visit(pkgs, nil, func(pk *packages.Package) {
			if pk.Types == nil {
				return
			}
			if isInitial[pk] {
				created[pk] = prog.CreatePackage(pk.Types, pk.Syntax, pk.TypesInfo, true)
			} else if !pk.IllTyped || pk.Types.Complete() {
				created[pk] = prog.CreatePackage(pk.Types, nil, nil, true)
			}
		})
		p.SSA = prog
		for _, pk := range pkgs {
			sp := created[pk]
			if sp == nil {
				buildErr = fmt.Errorf("no SSA package for %s", pk.PkgPath)
				return
			}
			p.SSAPkg[pk.PkgPath] = sp
		}
		prog.Build()
	}()
	if buildErr != nil {
		return nil, buildErr
	}
	seen := map[*ssa.Function]bool{}
	var add func(f *ssa.Function)
	add = func(f *ssa.Function) {
		if f == nil || seen[f] || f.Blocks == nil {
			return
		}
		seen[f] = true
		p.AllFuncs = append(p.AllFuncs, f)
		for _, a := range f.AnonFuncs {
			add(a)
		}
	}
	for _, pk := range pkgs {
		sp := p.SSAPkg[pk.PkgPath]
		for _, m := range sp.Members {
			switch m := m.(type) {
			case *ssa.Function:
				add(m)
			case *ssa.Type:
				for _, t := range []types.Type{m.Type(), types.NewPointer(m.Type())} {
					ms := p.SSA.MethodSets.MethodSet(t)
					for i := 0; i < ms.Len(); i++ {
						fn := p.SSA.MethodValue(ms.At(i))
						if fn != nil && fn.Pkg == sp && fn.Synthetic == "" {
							add(fn)
						}
					}
				}
			}
		}
	}
	sort.Slice(p.AllFuncs, func(i, j int) bool { return p.AllFuncs[i].String() < p.AllFuncs[j].String() })
	computeRecordedNames()
	computeTypeRenames(p)
	computeRenames(p)
	computeFieldRenames(p)
	computeDevirt(p)
	computeFuncValues(p)
	adoptMovedBodies(p)
	computeParamBindings(p)
	computeNewPackages(p)
	p.LoadSecs = time.Since(t0).Seconds()
	return p, nil
}

// Pkg returns the module package with the given path suffix (relative to the module path).
func (p *Prog) Pkg(rel string) *ssa.Package {
	return p.SSAPkg[ModPath+"/"+rel]
}

// Func resolves "rel/pkg.Name" or "rel/pkg.(*T).Name" / "rel/pkg.(T).Name" to an SSA function with a body.
func (p *Prog) Func(rel, name string) *ssa.Function {
	if f := p.funcByName(rel, name); f != nil && !bodyMovedOut[f] {
		return f
	}
	// the recorded function may carry a new name (renames.go), or its body may have moved behind a wrapper
	full := ModPath + "/" + rel + "." + name
	if strings.HasPrefix(name, "(") {
		if i := strings.Index(name, ")"); i > 0 {
			recv := name[1:i]
			star := ""
			if strings.HasPrefix(recv, "*") {
				star, recv = "*", recv[1:]
			}
			full = "(" + star + ModPath + "/" + rel + "." + recv + ")" + name[i+1:]
		}
	}
	return restored[full]
}

func (p *Prog) funcByName(rel, name string) *ssa.Function {
	sp := p.Pkg(rel)
	if sp == nil {
		return nil
	}
	if strings.HasPrefix(name, "(") {
		// method
		close := strings.Index(name, ")")
		recv := name[1:close]
		mname := name[close+2:]
		ptr := strings.HasPrefix(recv, "*")
		recv = strings.TrimPrefix(recv, "*")
		tm, ok := sp.Members[recv].(*ssa.Type)
		if !ok {
			return nil
		}
		var t types.Type = tm.Type()
		if ptr {
			t = types.NewPointer(t)
		}
		sel := p.SSA.MethodSets.MethodSet(t).Lookup(sp.Pkg, mname)
		if sel == nil {
			return nil
		}
		return p.SSA.MethodValue(sel)
	}
	if f, ok := sp.Members[name].(*ssa.Function); ok {
		return f
	}
	return nil
}

// Pos renders a position relative to the repository root.
func (p *Prog) Pos(pos token.Pos) string {
	if !pos.IsValid() {
		return "-"
	}
	ps := p.Fset.Position(pos)
	f := strings.TrimPrefix(ps.Filename, p.RepoDir+"/")
	return fmt.Sprintf("%s:%d", f, ps.Line)
}

// InstrPos returns the best position for an instruction (falls back to enclosing function).
func (p *Prog) InstrPos(in ssa.Instruction) string {
	if in.Pos().IsValid() {
		return p.Pos(in.Pos())
	}
	if c, ok := in.(*ssa.Call); ok && c.Common().Pos().IsValid() {
		return p.Pos(c.Common().Pos())
	}
	if in.Parent() != nil {
		return p.Pos(in.Parent().Pos()) + "(func)"
	}
	return "-"
}

// FuncName returns a short, stable name for a module function: pkgrel.(*T).M or pkgrel.F
func FuncName(f *ssa.Function) string {
	s := recordedString(f.String())
	s = strings.ReplaceAll(s, ModPath+"/", "")
	return s
}
