package km

import (
	"fmt"
	"os"
	"strings"
)

// DumpHook lets other packages add debugging views.
var DumpHook func(p *Prog, what string) bool

// Dump prints debugging views.
func Dump(p *Prog, what string) {
	if DumpHook != nil && DumpHook(p, what) {
		return
	}
	switch {
	case what == "routes":
		rs, err := p.Routes()
		if err != nil {
			fmt.Println("ERR", err)
		}
		for _, r := range rs {
			h := r.HandlerV
			if r.Handler != nil {
				h = FuncName(r.Handler)
			}
			fmt.Printf("%-8s %-45s %-60s %s %s\n", r.Mux, r.Pattern, h, r.Pos, r.Cond)
		}
		fmt.Println(len(rs), "routes")
	case what == "funcs":
		for _, f := range p.AllFuncs {
			fmt.Println(FuncName(f))
		}
		fmt.Println(len(p.AllFuncs), "functions", p.LoadSecs, "s")
	case strings.HasPrefix(what, "states:"):
		parts := strings.SplitN(what, ":", 3)
		f := p.Func(parts[1], parts[2])
		if f == nil {
			fmt.Println("no such function")
			return
		}
		fa := NewFacts()
		st := fa.States(f)
		for _, b := range f.Blocks {
			fmt.Printf("block %d (%s): %s\n", b.Index, b.Comment, st[b])
		}
	case strings.HasPrefix(what, "ssa:"):
		parts := strings.SplitN(what, ":", 3)
		f := p.Func(parts[1], parts[2])
		if f == nil {
			fmt.Println("no such function")
			return
		}
		f.WriteTo(os.Stdout)
	}
}
