package km

import (
	"fmt"
	"os"
	"sort"
	"strings"

	"golang.org/x/tools/go/ssa"
)

// DumpHook lets other packages add debugging views.
var DumpHook func(p *Prog, what string) bool

// Dump prints debugging views.
func Dump(p *Prog, what string) {
	if DumpHook != nil && DumpHook(p, what) {
		return
	}
	switch {
	case what == "pinned":
		os.Stdout.Write(PinnedTable(p))
	case what == "pinnedglobals":
		os.Stdout.Write(PinnedGlobalsTable(p))
	case what == "pinnedtypes":
		os.Stdout.Write(PinnedTypesTable(p))
	case what == "pinnedfields":
		os.Stdout.Write(PinnedFieldsTable(p))
	case what == "pinnedconfigkeys":
		os.Stdout.Write(ConfigKeysTable(p))
	case what == "renames":
		for _, n := range RenameNotes {
			fmt.Println(n)
		}
		fmt.Println(len(RenameNotes), "renamed function(s) recovered")
	case what == "routes":
		rs, err := p.Routes()
		if err != nil {
			fmt.Println("ERR", err)
		}
		for _, r := range rs {
			h := r.HandlerV
			if r.Handler != nil {
				h = FuncName(r.Handler)
			}
			fmt.Printf("%-8s %-45s %-60s %s %s\n", r.Mux, r.Pattern, h, r.Pos, r.Cond)
		}
		fmt.Println(len(rs), "routes")
	case what == "addrtaken":
		g := BuildCallGraph(p)
		var names []string
		for f, sites := range g.AddrTaken {
			names = append(names, fmt.Sprintf("%-70s static-callers=%d taken-at=%s", FuncName(f), len(g.Callers[f]), p.InstrPos(sites[0].Instr)))
		}
		sort.Strings(names)
		for _, n := range names {
			fmt.Println(n)
		}
	case what == "dyncalls":
		n := 0
		for _, f := range p.AllFuncs {
			for _, b := range f.Blocks {
				for _, in := range b.Instrs {
					ci, ok := in.(ssa.CallInstruction)
					if !ok || ci.Common().IsInvoke() || StaticCallee(ci.Common()) != nil {
						continue
					}
					if _, isB := ci.Common().Value.(*ssa.Builtin); isB {
						continue
					}
					n++
					fmt.Printf("%s  %s  %s  %s\n", p.InstrPos(in), FuncName(f), ci.Common().Value.Type(), ci.Common().Value)
				}
			}
		}
		fmt.Println(n, "dynamic calls")
	case what == "funcs":
		for _, f := range p.AllFuncs {
			fmt.Println(FuncName(f))
		}
		fmt.Println(len(p.AllFuncs), "functions", p.LoadSecs, "s")
	case strings.HasPrefix(what, "states:"):
		parts := strings.SplitN(what, ":", 3)
		f := p.Func(parts[1], parts[2])
		if f == nil {
			fmt.Println("no such function")
			return
		}
		fa := NewFacts()
		st := fa.States(f)
		for _, b := range f.Blocks {
			fmt.Printf("block %d (%s): %s\n", b.Index, b.Comment, st[b])
		}
	case strings.HasPrefix(what, "ssa:"):
		parts := strings.SplitN(what, ":", 3)
		f := p.Func(parts[1], parts[2])
		if f == nil {
			fmt.Println("no such function")
			return
		}
		f.WriteTo(os.Stdout)
	}
}
