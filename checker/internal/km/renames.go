package km

import (
	_ "embed"
	"encoding/json"
	"go/types"
	"sort"
	"strings"

	"golang.org/x/tools/go/ssa"
)

// Rules name about seventy functions of the module (anchors, callee names, reviewed tables). A pure rename of one
// of them changes nothing about the property, so it must not alarm: the names, signatures and static callees of
// every named function of the reviewed tree are recorded in pinned_funcs.json, and when a recorded name is gone
// and exactly one function that is new to the tree has the same package, receiver and signature (ties broken by
// the overlap of the static callee sets), that function is treated as the recorded one under its old name -
// every name the checker compares or prints is the recorded name. A wrong guess cannot make a check pass: the
// rules then judge the guessed function by the obligations of the old one.

//go:embed pinned_funcs.json
var pinnedFuncsJSON []byte

// PinnedFunc is the recorded identity of one named module function.
type PinnedFunc struct {
	Name    string   `json:"name"` // ssa String(): "pkg.F" or "(*pkg.T).M"
	Pkg     string   `json:"pkg"`
	Recv    string   `json:"recv"`
	Sig     string   `json:"sig"`
	Callees []string `json:"callees"`
}

// renamed maps the current String() of a renamed function to its recorded String().
var renamed = map[string]string{}

// restored maps the recorded String() to the function that now carries another name.
var restored = map[string]*ssa.Function{}

// RenameNotes lists the recoveries made for the loaded tree ("old -> new").
var RenameNotes []string

func identityOf(f *ssa.Function) PinnedFunc {
	pf := PinnedFunc{Name: f.String()}
	if f.Pkg != nil {
		pf.Pkg = f.Pkg.Pkg.Path()
	}
	q := func(p *types.Package) string { return p.Path() }
	if r := f.Signature.Recv(); r != nil {
		pf.Recv = recordedTypes(types.TypeString(r.Type(), q))
	}
	pf.Sig = recordedTypes(types.TypeString(types.NewSignatureType(nil, nil, nil, f.Signature.Params(), f.Signature.Results(), f.Signature.Variadic()), q))
	seen := map[string]bool{}
	for _, b := range f.Blocks {
		for _, in := range b.Instrs {
			if ci, ok := in.(ssa.CallInstruction); ok {
				if g := StaticCallee(ci.Common()); g != nil && !seen[g.String()] {
					seen[g.String()] = true
					pf.Callees = append(pf.Callees, g.String())
				}
			}
		}
	}
	sort.Strings(pf.Callees)
	return pf
}

func namedFuncs(p *Prog) []*ssa.Function {
	var out []*ssa.Function
	for _, f := range p.AllFuncs {
		if f.Parent() != nil || f.Synthetic != "" || f.Pkg == nil {
			continue
		}
		out = append(out, f)
	}
	return out
}

// PinnedTable renders the table for the loaded tree (kmcheck -dump pinned).
func PinnedTable(p *Prog) []byte {
	var tab []PinnedFunc
	for _, f := range namedFuncs(p) {
		tab = append(tab, identityOf(f))
	}
	b, _ := json.MarshalIndent(tab, "", " ")
	return append(b, '\n')
}

func computeRenames(p *Prog) {
	renamed = map[string]string{}
	restored = map[string]*ssa.Function{}
	var tab []PinnedFunc
	if err := json.Unmarshal(pinnedFuncsJSON, &tab); err != nil || len(tab) == 0 {
		return
	}
	pinned := map[string]PinnedFunc{}
	for _, pf := range tab {
		pinned[pf.Name] = pf
	}
	pinnedByName = pinned
	recordedOrderMemo = map[*ssa.Function][]int{}
	paramRenamedMemo = map[*ssa.Function][]int{}
	current := map[string]*ssa.Function{}
	for _, f := range namedFuncs(p) {
		n := f.String()
		// a method of a renamed type whose own name is unchanged is the recorded method
		if rn := recordedTypes(n); rn != n {
			if _, isPinned := pinned[rn]; isPinned {
				renamed[n] = rn
				restored[rn] = f
				n = rn
			}
		}
		current[n] = f
	}
	var fresh []*ssa.Function
	for n, f := range current {
		if _, ok := pinned[n]; !ok {
			fresh = append(fresh, f)
		}
	}
	sort.Slice(fresh, func(i, j int) bool { return fresh[i].String() < fresh[j].String() })
	var gone []string
	for n := range pinned {
		if _, ok := current[n]; !ok {
			gone = append(gone, n)
		}
	}
	sort.Strings(gone)
	taken := map[*ssa.Function]bool{}
	dropped := map[*ssa.Function]bool{}
	recvDropped = map[*ssa.Function]bool{}
	for _, n := range gone {
		old := pinned[n]
		var best *ssa.Function
		bestScore, ties, cands := -1.0, 0, 0
		for _, f := range fresh {
			if taken[f] {
				continue
			}
			id := identityOf(f)
			if id.Recv == old.Recv && stripParamNames(id.Sig) == stripParamNames(old.Sig) {
				// the same but for the names of its parameters
			} else if id.Recv != old.Recv || id.Sig != old.Sig {
				// a method that became a plain function taking its receiver first, or the reverse - or a method whose
				// receiver was not needed and was dropped on the way (callers' arguments are then shifted by one, which
				// CallArgs makes up for with a placeholder)
				if (id.Recv == "") == (old.Recv == "") {
					continue
				}
				if flatSig(id.Recv, id.Sig) != flatSig(old.Recv, old.Sig) {
					if !(id.Recv == "" && stripParamNames(id.Sig) == stripParamNames(old.Sig)) {
						continue
					}
					dropped[f] = true
				}
			}
			// a plain function may have moved to another package of the module (and been exported on the way);
			// methods stay with their type
			if id.Pkg != old.Pkg && (old.Recv != "" || id.Recv != "" || !strings.HasPrefix(id.Pkg, ModPath)) {
				continue
			}
			cands++
			sc := jaccard(old.Callees, id.Callees)
			if id.Pkg == old.Pkg {
				sc += 0.25 // same package: preferred among look-alikes
			}
			if strings.EqualFold(shortName(id.Name), shortName(old.Name)) {
				sc += 0.5 // same name up to the case of its first letter
			}
			switch {
			case sc > bestScore:
				best, bestScore, ties = f, sc, 1
			case sc == bestScore:
				ties++
			}
		}
		if best == nil || ties != 1 {
			continue
		}
		// several look-alikes: the winner has to share at least half of the callees
		if cands > 1 && bestScore < 0.5 {
			continue
		}
		taken[best] = true
		renamed[best.String()] = n
		restored[n] = best
		if dropped[best] {
			recvDropped[best] = true
		}
		RenameNotes = append(RenameNotes, strings.ReplaceAll(n, ModPath+"/", "")+" -> "+strings.ReplaceAll(best.String(), ModPath+"/", ""))
	}
	// second pass, for recorded names still missing: the function was renamed and its parameter list reworked on
	// the way (a parameter now derived inside, another added, the receiver made a parameter). It is recognised
	// by its results and by what it calls: same package, same result types, at least three recorded callees of
	// which it still makes most, and no other new function that close. Parameters are then matched by name.
	for _, n := range gone {
		if restored[n] != nil {
			continue
		}
		old := pinned[n]
		if len(old.Callees) < 3 {
			continue
		}
		var best *ssa.Function
		bestScore, second := -1.0, -1.0
		for _, f := range fresh {
			if taken[f] {
				continue
			}
			id := identityOf(f)
			if id.Pkg != old.Pkg || resultsOf(id.Sig) != resultsOf(old.Sig) {
				continue
			}
			if old.Recv != "" && id.Recv != "" && id.Recv != old.Recv {
				continue
			}
			sc := jaccard(old.Callees, id.Callees)
			switch {
			case sc > bestScore:
				best, bestScore, second = f, sc, bestScore
			case sc > second:
				second = sc
			}
		}
		if best == nil || bestScore < 0.6 || bestScore-second < 0.2 {
			continue
		}
		taken[best] = true
		renamed[best.String()] = n
		restored[n] = best
		RenameNotes = append(RenameNotes, strings.ReplaceAll(n, ModPath+"/", "")+" -> "+strings.ReplaceAll(best.String(), ModPath+"/", "")+" (parameters reworked)")
	}
	// third pass: recognised by who calls it. Every function that called the missing one in the recorded tree and
	// still exists now calls the same new function instead, and that function returns what the missing one did.
	for _, n := range gone {
		if restored[n] != nil {
			continue
		}
		old := pinned[n]
		var callers []*ssa.Function
		for _, pf := range tab {
			for _, cal := range pf.Callees {
				if cal == n {
					if cf := current[pf.Name]; cf != nil {
						callers = append(callers, cf)
					} else if cf := restored[pf.Name]; cf != nil {
						callers = append(callers, cf)
					}
				}
			}
		}
		if len(callers) == 0 {
			continue
		}
		var cands []*ssa.Function
		for _, f := range fresh {
			if taken[f] {
				continue
			}
			id := identityOf(f)
			if id.Pkg != old.Pkg || resultsOf(id.Sig) != resultsOf(old.Sig) {
				continue
			}
			all := true
			for _, cf := range callers {
				has := false
				for _, cal := range identityOf(cf).Callees {
					if cal == f.String() {
						has = true
					}
				}
				if !has {
					all = false
				}
			}
			if all {
				cands = append(cands, f)
			}
		}
		if len(cands) != 1 {
			continue
		}
		best := cands[0]
		taken[best] = true
		renamed[best.String()] = n
		restored[n] = best
		RenameNotes = append(RenameNotes, strings.ReplaceAll(n, ModPath+"/", "")+" -> "+strings.ReplaceAll(best.String(), ModPath+"/", "")+" (called in its place; parameters reworked)")
	}
}

// resultsOf: the result part of a printed signature, names removed.
func resultsOf(sig string) string {
	s := stripParamNames(sig)
	if !strings.HasPrefix(s, "func(") {
		return s
	}
	depth := 0
	for i := len("func(") - 1; i < len(s); i++ {
		switch s[i] {
		case '(', '[', '{':
			depth++
		case ')', ']', '}':
			depth--
			if depth == 0 {
				return strings.TrimSpace(s[i+1:])
			}
		}
	}
	return s
}

func jaccard(a, b []string) float64 {
	if len(a) == 0 && len(b) == 0 {
		return 1
	}
	in := map[string]bool{}
	for _, x := range a {
		in[x] = true
	}
	n := 0
	for _, x := range b {
		if in[x] {
			n++
		}
	}
	return float64(n) / float64(len(a)+len(b)-n)
}

// recordedString maps the String() of a function (or of a wrapper / anonymous function of it) to the recorded one.
func recordedString(s string) string {
	if len(renamed) == 0 {
		return s
	}
	if o, ok := renamed[s]; ok {
		return o
	}
	if i := strings.IndexByte(s, '$'); i > 0 {
		if o, ok := renamed[s[:i]]; ok {
			return o + s[i:]
		}
	}
	return s
}

// NameOf is the recorded short name of a function (f.Name() unless f is a renamed recorded function).
func NameOf(f *ssa.Function) string {
	if f == nil {
		return ""
	}
	if o, ok := renamed[f.String()]; ok {
		o = strings.TrimSuffix(o, ")")
		if i := strings.LastIndexByte(o, '.'); i >= 0 {
			return o[i+1:]
		}
		return o
	}
	return f.Name()
}

// ---- fields: the same recovery for renamed struct fields. The recorded table lists, for every named struct type
// of the module, its fields (name, type). When a recorded field name is gone from a struct and a field new to it
// has the same type - the only such new field, or the one at the same position - the new field is reported under
// the recorded name by fieldName, through which every field name the rules compare is obtained.

//go:embed pinned_fields.json
var pinnedFieldsJSON []byte

// PinnedStruct is the recorded field list of one named struct type.
type PinnedStruct struct {
	Type   string      `json:"type"` // pkgpath.Name
	Fields [][2]string `json:"fields"`
}

// fieldRenamed maps "pkgpath.Type\x00newName" to the recorded name.
var fieldRenamed = map[string]string{}

func structTypes(p *Prog) map[string]*types.Struct {
	out := map[string]*types.Struct{}
	for _, pk := range p.Pkgs {
		sc := pk.Types.Scope()
		for _, n := range sc.Names() {
			tn, ok := sc.Lookup(n).(*types.TypeName)
			if !ok || tn.IsAlias() {
				continue
			}
			if st, ok := tn.Type().Underlying().(*types.Struct); ok {
				out[pk.PkgPath+"."+n] = st
			}
		}
	}
	return out
}

func fieldList(st *types.Struct) [][2]string {
	q := func(p *types.Package) string { return p.Path() }
	var out [][2]string
	for i := 0; i < st.NumFields(); i++ {
		out = append(out, [2]string{st.Field(i).Name(), types.TypeString(st.Field(i).Type(), q)})
	}
	return out
}

// PinnedFieldsTable renders the field table for the loaded tree (kmcheck -dump pinnedfields).
func PinnedFieldsTable(p *Prog) []byte {
	sts := structTypes(p)
	var names []string
	for n := range sts {
		names = append(names, n)
	}
	sort.Strings(names)
	var tab []PinnedStruct
	for _, n := range names {
		tab = append(tab, PinnedStruct{n, fieldList(sts[n])})
	}
	b, _ := json.MarshalIndent(tab, "", " ")
	return append(b, '\n')
}

func computeFieldRenames(p *Prog) {
	fieldRenamed = map[string]string{}
	var tab []PinnedStruct
	if err := json.Unmarshal(pinnedFieldsJSON, &tab); err != nil || len(tab) == 0 {
		return
	}
	sts := structTypes(p)
	for _, ps := range tab {
		st, ok := sts[ps.Type]
		if !ok {
			if nw, has := typeRestored[ps.Type]; has {
				st, ok = sts[nw]
			}
			if !ok {
				continue
			}
		}
		cur := fieldList(st)
		for i := range cur {
			cur[i][1] = recordedTypes(cur[i][1])
		}
		curNames, oldNames := map[string]bool{}, map[string]bool{}
		for _, f := range cur {
			curNames[f[0]] = true
		}
		for _, f := range ps.Fields {
			oldNames[f[0]] = true
		}
		used := map[string]bool{}
		for oi, of := range ps.Fields {
			if curNames[of[0]] {
				continue
			}
			// candidates: fields new to the struct with the recorded type
			var cands []int
			for ci, cf := range cur {
				if !oldNames[cf[0]] && !used[cf[0]] && cf[1] == of[1] {
					cands = append(cands, ci)
				}
			}
			pick := -1
			switch {
			case len(cands) == 1:
				pick = cands[0]
			case len(cands) > 1:
				// the one that kept its place among the fields
				for _, ci := range cands {
					if ci == oi {
						pick = ci
					}
				}
			}
			if pick < 0 {
				continue
			}
			used[cur[pick][0]] = true
			fieldRenamed[ps.Type+"\x00"+cur[pick][0]] = of[0]
			RenameNotes = append(RenameNotes, "field "+strings.ReplaceAll(ps.Type, ModPath+"/", "")+"."+of[0]+" -> "+cur[pick][0])
		}
	}
}

// recordedField is the recorded name of field `name` of the (possibly pointer-to) named struct type t.
func recordedField(t types.Type, name string) string {
	if len(fieldRenamed) == 0 {
		return name
	}
	if p, ok := t.Underlying().(*types.Pointer); ok {
		t = p.Elem()
	}
	if p, ok := t.(*types.Pointer); ok {
		t = p.Elem()
	}
	n, ok := t.(*types.Named)
	if !ok || n.Obj().Pkg() == nil {
		return name
	}
	tname := n.Obj().Pkg().Path() + "." + n.Obj().Name()
	if o, ok := typeRenamed[tname]; ok {
		tname = o
	}
	if o, ok := fieldRenamed[tname+"\x00"+name]; ok {
		return o
	}
	return name
}

// RecordedField is recordedField, for rules that read field names from go/types directly.
func RecordedField(t types.Type, name string) string { return recordedField(t, name) }

func shortName(full string) string {
	full = strings.TrimSuffix(full, ")")
	if i := strings.LastIndexByte(full, '.'); i >= 0 {
		return full[i+1:]
	}
	return full
}

// ---- named types: a recorded type name that is gone is found again in the only type new to the same package whose
// underlying type is the recorded one (the type's own name replaced inside it). Every type name the rules compare
// comes from NamedTypeOf, which answers with the recorded name; receiver and signature strings are compared after
// the same replacement, so the methods of a renamed type are recovered by the function table.

// typeRenamed maps the current qualified name of a renamed type to the recorded one; typeRestored the reverse.
var typeRenamed = map[string]string{}
var typeRestored = map[string]string{}

// CurrentTypeName: the name a recorded type (package-relative qualified name "pkgpath.Name") carries now.
func CurrentTypeName(recorded string) string {
	if nw, ok := typeRestored[recorded]; ok {
		return nw
	}
	return recorded
}

func computeTypeRenames(p *Prog) {
	RenameNotes = nil
	typeRenamed = map[string]string{}
	typeRestored = map[string]string{}
	rows := loadPinnedTypes()
	if len(rows) == 0 {
		return
	}
	q := func(pk *types.Package) string { return pk.Path() }
	cur := map[string]string{}
	curPkg := map[string]string{}
	for _, pk := range p.Pkgs {
		sc := pk.Types.Scope()
		for _, n := range sc.Names() {
			if tn, ok := sc.Lookup(n).(*types.TypeName); ok && !tn.IsAlias() {
				cur[pk.PkgPath+"."+n] = types.TypeString(tn.Type().Underlying(), q)
				curPkg[pk.PkgPath+"."+n] = pk.PkgPath
			}
		}
	}
	pinned := map[string]string{}
	for _, r := range rows {
		pinned[r[0]] = r[1]
	}
	var fresh []string
	for n := range cur {
		if _, ok := pinned[n]; !ok {
			fresh = append(fresh, n)
		}
	}
	sort.Strings(fresh)
	var gone []string
	for n := range pinned {
		if _, ok := cur[n]; !ok {
			gone = append(gone, n)
		}
	}
	sort.Strings(gone)
	taken := map[string]bool{}
	for _, g := range gone {
		pkgOf := g[:strings.LastIndexByte(g, '.')]
		var match []string
		for _, f := range fresh {
			if taken[f] || curPkg[f] != pkgOf {
				continue
			}
			if replaceTypeName(cur[f], f, g) == pinned[g] {
				match = append(match, f)
			}
		}
		if len(match) != 1 {
			continue
		}
		taken[match[0]] = true
		typeRenamed[match[0]] = g
		typeRestored[g] = match[0]
		RenameNotes = append(RenameNotes, "type "+strings.ReplaceAll(g, ModPath+"/", "")+" -> "+strings.ReplaceAll(match[0], ModPath+"/", ""))
	}
}

// replaceTypeName replaces the qualified type name from by to inside a type string, at identifier boundaries.
func replaceTypeName(s, from, to string) string {
	if from == to || !strings.Contains(s, from) {
		return s
	}
	var b strings.Builder
	for i := 0; i < len(s); {
		if strings.HasPrefix(s[i:], from) {
			end := i + len(from)
			startOK := i == 0 || !isIdentByte(s[i-1])
			endOK := end == len(s) || !isIdentByte(s[end])
			if startOK && endOK {
				b.WriteString(to)
				i = end
				continue
			}
		}
		b.WriteByte(s[i])
		i++
	}
	return b.String()
}

func isIdentByte(c byte) bool {
	return c == '_' || c == '/' || c == '.' || (c >= '0' && c <= '9') || (c >= 'a' && c <= 'z') || (c >= 'A' && c <= 'Z')
}

// recordedTypes rewrites every renamed type name inside a type / receiver / function string to the recorded one.
func recordedTypes(s string) string {
	for nw, old := range typeRenamed {
		s = replaceTypeName(s, nw, old)
	}
	return s
}

// recordedPkgs: the packages of the recorded tree (from the function table); newPkgs: module packages of the
// loaded tree that are not among them.
var newPkgs = map[string]bool{}

func computeNewPackages(p *Prog) {
	newPkgs = map[string]bool{}
	var tab []PinnedFunc
	if err := json.Unmarshal(pinnedFuncsJSON, &tab); err != nil || len(tab) == 0 {
		return
	}
	rec := map[string]bool{}
	for _, pf := range tab {
		rec[pf.Pkg] = true
	}
	for _, r := range loadPinnedTypes() {
		if i := strings.LastIndexByte(r[0], '.'); i > 0 {
			rec[r[0][:i]] = true
		}
	}
	for _, pk := range p.Pkgs {
		if !rec[pk.PkgPath] && len(pk.Syntax) > 0 {
			// packages without functions are not in the function table; only count packages that have some
			has := false
			for _, f := range namedFuncs(p) {
				if f.Pkg != nil && f.Pkg.Pkg.Path() == pk.PkgPath {
					has = true
					break
				}
			}
			if has {
				newPkgs[pk.PkgPath] = true
				RenameNotes = append(RenameNotes, "package new to the module, scanned with the daemon: "+strings.ReplaceAll(pk.PkgPath, ModPath+"/", ""))
			}
		}
	}
}

// IsNewModulePackage: a package of the module that the recorded tree does not have.
func IsNewModulePackage(path string) bool { return newPkgs[path] }

// flatSig: the signature with the receiver (if any) as the first parameter.
func flatSig(recv, sig string) string {
	if recv == "" || !strings.HasPrefix(sig, "func(") {
		return stripParamNames(sig)
	}
	rest := sig[len("func("):]
	// parameter names are part of the type string ("func(user string) bool"): the receiver gets none, so names are
	// dropped on both sides before comparing
	if strings.HasPrefix(rest, ")") {
		return stripParamNames("func(" + recv + rest)
	}
	return stripParamNames("func(" + recv + ", " + rest)
}

// stripParamNames removes parameter and result names from a printed signature, leaving the types.
func stripParamNames(sig string) string {
	var b strings.Builder
	depth := 0
	tok := ""
	flush := func(next byte) {
		// a name is an identifier token followed by a space and a type at tuple depth >= 1
		b.WriteString(tok)
		tok = ""
	}
	for i := 0; i < len(sig); i++ {
		ch := sig[i]
		switch {
		case ch == '(':
			flush(ch)
			depth++
			b.WriteByte(ch)
		case ch == ')':
			flush(ch)
			depth--
			b.WriteByte(ch)
		case ch == ',':
			flush(ch)
			b.WriteByte(ch)
		case ch == ' ':
			// "name type": drop the name when the token so far is a plain identifier and we are inside a tuple
			t := strings.TrimSpace(tok)
			if t == "" {
				// drop blanks after separators
			} else if depth >= 1 && isPlainIdent(t) && i+1 < len(sig) && sig[i+1] != ' ' && t != "func" && t != "chan" && t != "map" && t != "interface" && t != "struct" {
				tok = ""
			} else {
				tok += " "
			}
		default:
			tok += string(ch)
		}
	}
	b.WriteString(tok)
	return b.String()
}

func isPlainIdent(s string) bool {
	if s == "" {
		return false
	}
	for i := 0; i < len(s); i++ {
		c := s[i]
		if !(c == '_' || (c >= '0' && c <= '9' && i > 0) || (c >= 'a' && c <= 'z') || (c >= 'A' && c <= 'Z')) {
			return false
		}
	}
	return true
}

// recvDropped: recorded methods that are now plain functions without their (unused) receiver.
var recvDropped = map[*ssa.Function]bool{}

// pinnedByName: the recorded identities by recorded name.
var pinnedByName = map[string]PinnedFunc{}
var recordedOrderMemo = map[*ssa.Function][]int{}

// paramRenamedMemo: recorded functions whose parameters keep their positions (some were renamed).
var paramRenamedMemo = map[*ssa.Function][]int{}

// RecordedParamName: the name the parameter had in the recorded function (its own name when it had none or the
// function is not a recorded one).
func RecordedParamName(p *ssa.Parameter) string {
	fn := p.Parent()
	if fn == nil {
		return p.Name()
	}
	pf, ok := pinnedByName[recordedString(fn.String())]
	if !ok {
		return p.Name()
	}
	o := recordedOrder(fn)
	if o == nil {
		o = paramRenamedMemo[fn]
	}
	names := recordedParamNames(pf)
	for i, j := range o {
		if j >= 0 && j < len(fn.Params) && fn.Params[j] == p && i < len(names) && names[i] != "" {
			return names[i]
		}
	}
	return p.Name()
}

// recordedParamNames: the parameter names of a recorded function in order, the receiver (unnamed, "") first for a
// method.
func recordedParamNames(pf PinnedFunc) []string {
	n, _ := recordedParams(pf)
	return n
}

// recordedParams: names and printed types of the recorded parameters (the receiver first, unnamed).
func recordedParams(pf PinnedFunc) ([]string, []string) {
	var out, typs []string
	if pf.Recv != "" {
		out = append(out, "")
		typs = append(typs, pf.Recv)
	}
	sig := pf.Sig
	if !strings.HasPrefix(sig, "func(") {
		return out, typs
	}
	depth, start := 0, len("func(")
	end := -1
	for i := len("func(") - 1; i < len(sig); i++ {
		switch sig[i] {
		case '(', '[', '{':
			depth++
		case ')', ']', '}':
			depth--
			if depth == 0 && end < 0 {
				end = i
			}
		}
		if end >= 0 {
			break
		}
	}
	if end < 0 {
		return out, typs
	}
	body := sig[start:end]
	if strings.TrimSpace(body) == "" {
		return out, typs
	}
	depth = 0
	last := 0
	var parts []string
	for i := 0; i < len(body); i++ {
		switch body[i] {
		case '(', '[', '{':
			depth++
		case ')', ']', '}':
			depth--
		case ',':
			if depth == 0 {
				parts = append(parts, body[last:i])
				last = i + 1
			}
		}
	}
	parts = append(parts, body[last:])
	for _, p := range parts {
		p = strings.TrimSpace(p)
		name, typ := "", p
		if j := strings.IndexByte(p, ' '); j > 0 && isPlainIdent(p[:j]) && p[:j] != "func" && p[:j] != "chan" && p[:j] != "map" && p[:j] != "interface" && p[:j] != "struct" {
			name, typ = p[:j], strings.TrimSpace(p[j+1:])
		}
		out = append(out, name)
		typs = append(typs, typ)
	}
	return out, typs
}

// recordedOrder: for a function that stands for a recorded one, the index of the current parameter for each
// recorded parameter position (-1 when there is none): parameters are matched by name, the receiver by its type,
// so that an inserted context parameter, a dropped unused receiver or a method turned function do not shift what
// the rules look at. nil when the function is not recorded or nothing moved.
func recordedOrder(fn *ssa.Function) []int {
	if fn == nil {
		return nil
	}
	if o, ok := recordedOrderMemo[fn]; ok {
		return o
	}
	recordedOrderMemo[fn] = nil
	pf, ok := pinnedByName[recordedString(fn.String())]
	if !ok {
		return nil
	}
	names, typs := recordedParams(pf)
	order := make([]int, len(names))
	identity := len(names) == len(fn.Params)
	q := func(p *types.Package) string { return p.Path() }
	for i, n := range names {
		order[i] = -1
		if n == "" && i == 0 && pf.Recv != "" {
			// the receiver: still the receiver, or the first parameter of the receiver's type
			if fn.Signature.Recv() != nil && len(fn.Params) > 0 {
				order[i] = 0
			} else {
				for j, p := range fn.Params {
					if recordedTypes(types.TypeString(p.Type(), q)) == pf.Recv {
						order[i] = j
						break
					}
				}
			}
		} else if n != "" {
			for j, p := range fn.Params {
				if p.Name() == n {
					order[i] = j
				}
			}
		}
		if order[i] < 0 && n == "" && !(i == 0 && pf.Recv != "") {
			// unnamed recorded parameter: positional
			if i < len(fn.Params) {
				order[i] = i
			}
		}
		if order[i] != i {
			identity = false
		}
	}
	// a recorded name that is gone: the parameter was renamed if exactly one parameter no recorded name claims has
	// the recorded type (and no other orphaned recorded parameter has that type)
	claimed := map[int]bool{}
	for _, j := range order {
		if j >= 0 {
			claimed[j] = true
		}
	}
	for i := range names {
		if order[i] >= 0 || names[i] == "" {
			continue
		}
		rivals := 0
		for i2 := range names {
			if i2 != i && order[i2] < 0 && typs[i2] == typs[i] {
				rivals++
			}
		}
		cand, nc := -1, 0
		for j, p := range fn.Params {
			if !claimed[j] && recordedTypes(types.TypeString(p.Type(), q)) == typs[i] {
				cand = j
				nc++
			}
		}
		if rivals == 0 && nc == 1 {
			order[i] = cand
			claimed[cand] = true
		}
	}
	identity = len(names) == len(fn.Params)
	for i, j := range order {
		if i != j {
			identity = false
		}
	}
	if identity {
		paramRenamedMemo[fn] = order
		return nil
	}
	// names that are all gone (parameters renamed wholesale): fall back to positions
	found := 0
	for _, j := range order {
		if j >= 0 {
			found++
		}
	}
	if found == 0 {
		return nil
	}
	recordedOrderMemo[fn] = order
	return order
}

// ParamAt: the parameter of fn at the position it had in the recorded function (a receiver that was dropped when a
// method became a function shifts the positions by one); nil when there is none.
func ParamAt(fn *ssa.Function, recordedIdx int) *ssa.Parameter {
	if o := recordedOrder(fn); o != nil {
		if recordedIdx < 0 || recordedIdx >= len(o) || o[recordedIdx] < 0 {
			return nil
		}
		return fn.Params[o[recordedIdx]]
	}
	i := recordedIdx
	if recvDropped[fn] {
		i--
	}
	if i < 0 || i >= len(fn.Params) {
		return nil
	}
	return fn.Params[i]
}

// IsRecorded: fn is (or stands for) a function of the recorded tree.
func (p *Prog) IsRecorded(fn *ssa.Function) bool {
	if fn == nil {
		return false
	}
	_, ok := pinnedByName[recordedString(fn.String())]
	return ok
}
