package km

import (
	"go/token"
	"go/types"
	"sort"
	"strings"

	"golang.org/x/tools/go/ssa"
)

// Sym is the symbolic value of an SSA value of one function (the root frame) with the small helpers it goes through
// inlined: calls to module functions whose returns all denote the same expression are replaced by that expression
// with the parameters bound to the (already evaluated) arguments, and fields of struct values built by composite
// literals (locally or inside such a helper, also when handed on as a value receiver) are replaced by what was stored
// in them. What cannot be looked into stays an opaque leaf that remembers its SSA value, so two occurrences of the
// same call (one time.Now() kept in a struct and read twice) are the same leaf.
//
//	Op "val"    : opaque value of the root frame (Val); also phis, globals, results of dynamic calls
//	Op "const"  : Val is the *ssa.Const
//	Op "call"   : Name = callee, Args; Val = the call instruction (identity for calls without a body)
//	Op "binop"  : Name = operator, Args[0], Args[1]
//	Op "conv"   : Name = target type, Args[0]
//	Op "field"  : Name = field, Args[0] = opaque struct
//	Op "struct" : Fields
type Sym struct {
	Op     string
	Name   string
	Args   []*Sym
	Val    ssa.Value
	Fields map[string]*Sym
}

func (s *Sym) String() string {
	if s == nil {
		return "?"
	}
	switch s.Op {
	case "val", "const":
		return ValStr(s.Val)
	case "call":
		var a []string
		for _, x := range s.Args {
			a = append(a, x.String())
		}
		return s.Name + "(" + strings.Join(a, ", ") + ")"
	case "binop":
		return "(" + s.Args[0].String() + " " + s.Name + " " + s.Args[1].String() + ")"
	case "conv":
		return s.Name + "(" + s.Args[0].String() + ")"
	case "field":
		return s.Args[0].String() + "." + s.Name
	case "struct":
		var ks []string
		for k := range s.Fields {
			ks = append(ks, k)
		}
		sort.Strings(ks)
		var a []string
		for _, k := range ks {
			a = append(a, k+": "+s.Fields[k].String())
		}
		return "{" + strings.Join(a, ", ") + "}"
	}
	return s.Op
}

// SymEqual: structural equality; opaque leaves and body-less calls are equal when they are the same SSA value.
func SymEqual(a, b *Sym) bool {
	if a == nil || b == nil {
		return a == b
	}
	if a.Op != b.Op || a.Name != b.Name || len(a.Args) != len(b.Args) {
		return false
	}
	switch a.Op {
	case "val":
		return a.Val == b.Val
	case "const":
		ca, cb := a.Val.(*ssa.Const), b.Val.(*ssa.Const)
		return constEqual(ca, cb)
	case "call":
		if len(a.Args) == 0 && a.Val != b.Val {
			return false // two different time.Now() calls are different instants
		}
		if a.Val != b.Val && !pureCalls[a.Name] {
			return false
		}
	case "struct":
		if len(a.Fields) != len(b.Fields) {
			return false
		}
		for k, v := range a.Fields {
			if !SymEqual(v, b.Fields[k]) {
				return false
			}
		}
	}
	for i := range a.Args {
		if !SymEqual(a.Args[i], b.Args[i]) {
			return false
		}
	}
	return true
}

// pureCalls: body-less calls whose result depends on their arguments only.
var pureCalls = map[string]bool{
	"(time.Time).Add": true, "(time.Time).Unix": true, "(time.Duration).Seconds": true, "(time.Time).Sub": true,
	"(time.Duration).Hours": true, "(time.Duration).Minutes": true,
}

// SymOf evaluates v, a value of function root's frame.
func SymOf(v ssa.Value) *Sym {
	return symEval(v, nil, 0, map[*ssa.Function]bool{})
}

// SymOfEnv evaluates v with the given parameter bindings.
func SymOfEnv(v ssa.Value, env map[*ssa.Parameter]*Sym) *Sym {
	return symEval(v, env, 0, map[*ssa.Function]bool{})
}

// SymAtCall evaluates v, a value of the callee's frame, as seen from one call of the callee: the callee's parameters
// stand for the arguments of that call, evaluated in the caller's frame.
func SymAtCall(v ssa.Value, callee *ssa.Function, call ssa.CallInstruction) *Sym {
	env := map[*ssa.Parameter]*Sym{}
	args := CallArgs(call.Common())
	for i, p := range callee.Params {
		if i < len(args) {
			env[p] = SymOf(args[i])
		}
	}
	return symEval(v, env, 0, map[*ssa.Function]bool{callee: true})
}

func symLeaf(v ssa.Value) *Sym { return &Sym{Op: "val", Val: v} }

func symEval(v ssa.Value, env map[*ssa.Parameter]*Sym, depth int, active map[*ssa.Function]bool) *Sym {
	if v == nil {
		return nil
	}
	if depth > 12 {
		return symLeaf(v)
	}
	switch x := v.(type) {
	case *ssa.Const:
		return &Sym{Op: "const", Val: x}
	case *ssa.Parameter:
		if s, ok := env[x]; ok {
			return s
		}
		return symLeaf(x)
	case *ssa.ChangeType:
		return symEval(x.X, env, depth+1, active)
	case *ssa.MakeInterface:
		return symEval(x.X, env, depth+1, active)
	case *ssa.Convert:
		return &Sym{Op: "conv", Name: types.TypeString(x.Type(), nil), Args: []*Sym{symEval(x.X, env, depth+1, active)}}
	case *ssa.BinOp:
		return &Sym{Op: "binop", Name: x.Op.String(), Args: []*Sym{symEval(x.X, env, depth+1, active), symEval(x.Y, env, depth+1, active)}}
	case *ssa.Field:
		base := symEval(x.X, env, depth+1, active)
		return symField(base, fieldName(x.X.Type(), x.Field))
	case *ssa.UnOp:
		if x.Op != token.MUL {
			return symLeaf(v)
		}
		switch a := x.X.(type) {
		case *ssa.FieldAddr:
			if g, isG := a.X.(*ssa.Global); isG {
				if st := globalFieldStore(g, a.Field); st != nil {
					return symEval(st.Val, nil, depth+1, active)
				}
			}
			base := symAddr(a.X, env, depth+1, active)
			return symField(base, fieldName(a.X.Type(), a.Field))
		case *ssa.Global:
			// a package-level struct copied whole: its fields are what the initialiser stored
			if s := globalStructSym(a, depth+1, active); s != nil {
				return s
			}
		case *ssa.Alloc:
			if s := symCell(a, env, depth+1, active); s != nil {
				return s
			}
		}
		return symLeaf(v)
	case *ssa.Extract:
		if call, ok := x.Tuple.(*ssa.Call); ok {
			if s := symCall(call, x.Index, env, depth, active); s != nil {
				return s
			}
		}
		return symLeaf(v)
	case *ssa.Call:
		if s := symCall(x, 0, env, depth, active); s != nil {
			return s
		}
		return symLeaf(v)
	}
	return symLeaf(v)
}

func symField(base *Sym, name string) *Sym {
	if base != nil && base.Op == "struct" {
		if f, ok := base.Fields[name]; ok {
			return f
		}
		return &Sym{Op: "zero"} // a field the literal leaves at its zero value
	}
	return &Sym{Op: "field", Name: name, Args: []*Sym{base}}
}

// symAddr: the struct an address denotes (a local struct variable, or a pointer kept opaque).
func symAddr(p ssa.Value, env map[*ssa.Parameter]*Sym, depth int, active map[*ssa.Function]bool) *Sym {
	if a, ok := p.(*ssa.Alloc); ok {
		if s := symCell(a, env, depth, active); s != nil {
			return s
		}
	}
	if pp, ok := p.(*ssa.Parameter); ok {
		if s, has := env[pp]; has {
			return s
		}
	}
	return symLeaf(p)
}

// symCell: the contents of a local variable cell: the value stored into it whole exactly once (a spilled
// parameter or result), or the struct its fields were given exactly once each (a composite literal). nil when the
// cell is written in any other way, or its address escapes into a call.
func symCell(a *ssa.Alloc, env map[*ssa.Parameter]*Sym, depth int, active map[*ssa.Function]bool) *Sym {
	var whole []*ssa.Store
	fields := map[string][]*ssa.Store{}
	for _, ref := range *a.Referrers() {
		switch r := ref.(type) {
		case *ssa.Store:
			if r.Addr == ssa.Value(a) {
				whole = append(whole, r)
			} else {
				return nil // the address itself is stored somewhere
			}
		case *ssa.FieldAddr:
			for _, r2 := range *r.Referrers() {
				switch u := r2.(type) {
				case *ssa.Store:
					if u.Addr == ssa.Value(r) {
						n := fieldName(r.X.Type(), r.Field)
						fields[n] = append(fields[n], u)
					} else {
						return nil
					}
				case *ssa.UnOp, *ssa.DebugRef:
				case *ssa.FieldAddr:
					// nested struct field: writes below are not tracked
					for _, r3 := range *u.Referrers() {
						if _, isSt := r3.(*ssa.Store); isSt {
							return nil
						}
					}
				default:
					return nil // address of a field handed on
				}
			}
		case *ssa.UnOp, *ssa.DebugRef:
		default:
			return nil // address handed to a call, made into an interface, ...
		}
	}
	switch {
	case len(whole) == 1 && len(fields) == 0:
		return symEval(whole[0].Val, env, depth+1, active)
	case len(whole) == 0 && len(fields) > 0:
		if _, isStruct := a.Type().Underlying().(*types.Pointer).Elem().Underlying().(*types.Struct); !isStruct {
			return nil
		}
		s := &Sym{Op: "struct", Fields: map[string]*Sym{}}
		for n, sts := range fields {
			if len(sts) != 1 {
				return nil
			}
			s.Fields[n] = symEval(sts[0].Val, env, depth+1, active)
		}
		return s
	}
	return nil
}

func symCall(call *ssa.Call, idx int, env map[*ssa.Parameter]*Sym, depth int, active map[*ssa.Function]bool) *Sym {
	cc := call.Common()
	if cc.IsInvoke() {
		return nil
	}
	g := StaticCallee(cc)
	if g == nil {
		return nil
	}
	args := CallArgs(cc)
	var as []*Sym
	for _, a := range args {
		as = append(as, symEval(a, env, depth+1, active))
	}
	name := FuncFull(g)
	if g.Blocks == nil || g.Pkg == nil || !strings.HasPrefix(g.Pkg.Pkg.Path(), ModPath) || active[g] || depth > 8 || len(g.Params) != len(as) {
		if idx != 0 {
			return nil
		}
		return &Sym{Op: "call", Name: name, Args: as, Val: call}
	}
	// a helper with a body: its result expression, when every return denotes the same one
	inner := map[*ssa.Parameter]*Sym{}
	for i, p := range g.Params {
		inner[p] = as[i]
	}
	active[g] = true
	defer delete(active, g)
	var res *Sym
	for _, b := range g.Blocks {
		ret, ok := b.Instrs[len(b.Instrs)-1].(*ssa.Return)
		if !ok {
			continue
		}
		rv := ReturnValues(ret)
		if idx >= len(rv) {
			return nil
		}
		s := symEval(rv[idx], inner, depth+2, active)
		if res == nil {
			res = s
		} else if !SymEqual(res, s) {
			if idx != 0 {
				return nil
			}
			return &Sym{Op: "call", Name: name, Args: as, Val: call}
		}
	}
	return res
}

// IsCall: s is a call of the named function; returns its arguments.
func (s *Sym) IsCall(name string) ([]*Sym, bool) {
	if s != nil && s.Op == "call" && s.Name == name {
		return s.Args, true
	}
	return nil, false
}

// ConstInt of a constant symbol.
func (s *Sym) ConstInt() (int64, bool) {
	if s == nil || s.Op != "const" || s.Val == nil {
		return 0, false
	}
	return ConstInt(s.Val)
}

// IsVal: s is the opaque root-frame value v.
func (s *Sym) IsVal(v ssa.Value) bool { return s != nil && s.Op == "val" && s.Val == v }

// globalWrites collects every store to package-level variable g (whole, or into one of its fields) in g's package.
type globalWrites struct {
	whole  []*ssa.Store
	fields map[int][]*ssa.Store
}

var globalWritesMemo = map[*ssa.Global]*globalWrites{}

func writesOf(g *ssa.Global) *globalWrites {
	if w, ok := globalWritesMemo[g]; ok {
		return w
	}
	w := &globalWrites{fields: map[int][]*ssa.Store{}}
	globalWritesMemo[g] = w
	if g.Pkg == nil {
		return w
	}
	seen := map[*ssa.Function]bool{}
	var scan func(fn *ssa.Function)
	scan = func(fn *ssa.Function) {
		if fn == nil || seen[fn] {
			return
		}
		seen[fn] = true
		for _, b := range fn.Blocks {
			for _, in := range b.Instrs {
				st, ok := in.(*ssa.Store)
				if !ok {
					continue
				}
				if st.Addr == ssa.Value(g) {
					w.whole = append(w.whole, st)
				} else if fa, isFA := st.Addr.(*ssa.FieldAddr); isFA && fa.X == ssa.Value(g) {
					w.fields[fa.Field] = append(w.fields[fa.Field], st)
				}
			}
		}
		for _, a := range fn.AnonFuncs {
			scan(a)
		}
	}
	for _, m := range g.Pkg.Members {
		switch x := m.(type) {
		case *ssa.Function:
			scan(x)
		case *ssa.Type:
			for _, tt := range []types.Type{x.Type(), types.NewPointer(x.Type())} {
				ms := g.Pkg.Prog.MethodSets.MethodSet(tt)
				for i := 0; i < ms.Len(); i++ {
					if fn := g.Pkg.Prog.MethodValue(ms.At(i)); fn != nil && fn.Pkg == g.Pkg {
						scan(fn)
					}
				}
			}
		}
	}
	return w
}

// globalFieldStore: the only store into field idx of package-level struct variable g, when it happens in the
// package initialiser and the variable is never assigned whole.
func globalFieldStore(g *ssa.Global, idx int) *ssa.Store {
	w := writesOf(g)
	if g.Pkg == nil || len(w.whole) > 0 || len(w.fields[idx]) != 1 {
		return nil
	}
	st := w.fields[idx][0]
	if st.Parent() != g.Pkg.Func("init") {
		return nil
	}
	return st
}

// globalStructSym: the struct value of a package-level struct variable that only its package initialiser writes:
// assigned whole once from a literal, or field by field once each.
func globalStructSym(g *ssa.Global, depth int, active map[*ssa.Function]bool) *Sym {
	if g.Pkg == nil {
		return nil
	}
	pt, ok := g.Type().Underlying().(*types.Pointer)
	if !ok {
		return nil
	}
	st, ok := pt.Elem().Underlying().(*types.Struct)
	if !ok {
		return nil
	}
	w := writesOf(g)
	initFn := g.Pkg.Func("init")
	if len(w.whole) == 1 && len(w.fields) == 0 {
		if w.whole[0].Parent() != initFn {
			return nil
		}
		s := symEval(w.whole[0].Val, nil, depth+1, active)
		if s != nil && s.Op == "struct" {
			return s
		}
		return nil
	}
	if len(w.whole) > 0 {
		return nil
	}
	out := &Sym{Op: "struct", Fields: map[string]*Sym{}}
	for i := 0; i < st.NumFields(); i++ {
		sts := w.fields[i]
		switch {
		case len(sts) == 0:
		case len(sts) == 1 && sts[0].Parent() == initFn:
			out.Fields[fieldName(pt.Elem(), i)] = symEval(sts[0].Val, nil, depth+1, active)
		default:
			return nil
		}
	}
	if len(out.Fields) == 0 {
		return nil
	}
	return out
}
