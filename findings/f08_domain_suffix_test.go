package main

// Triage demonstration for finding F8 (C13): the host test against a configured domain was a bare suffix test,
// so the look-alike host "evilexample.com" was accepted for domain "example.com" (redirect and CORS siblings).
import "testing"

func TestZZF08DotBoundary(t *testing.T) {
	client := OpenIDConnectClientConfig{ClientID: "c", AllowedRedirectDomains: []string{"example.com"}}
	for _, u := range []string{"https://evilexample.com/cb", "https://notexample.com", "https://example.com.evil.com/"} {
		ok, _, err := client.CanRedirectToURL(u)
		if err != nil || ok {
			t.Errorf("redirect to look-alike host accepted: %s", u)
		}
		ok, _ = client.CorsOriginAllowed(u)
		if ok {
			t.Errorf("CORS origin look-alike accepted: %s", u)
		}
	}
	state := &RuntimeState{}
	state.Config.OpenIDConnectIDP.Client = []OpenIDConnectClientConfig{client}
	if ok, _ := state.idpOpenIDCGenericIsCorsOriginAllowed("https://evilexample.com"); ok {
		t.Errorf("generic CORS origin look-alike accepted")
	}
	for _, u := range []string{"https://example.com/cb", "https://www.example.com/cb", "https://a.b.example.com:443/x"} {
		ok, _, err := client.CanRedirectToURL(u)
		if err != nil || !ok {
			t.Errorf("legitimate host refused: %s", u)
		}
	}
}
