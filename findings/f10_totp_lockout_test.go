package main

// Triage demonstration for finding F10 (C14): the lock-out time after repeated TOTP failures was computed with
// time.Time.Add and the result discarded, so no lock-out was ever applied: after any number of wrong guesses the
// next guess was evaluated as usual.
import (
	"io/ioutil"
	"os"
	"strconv"
	"testing"
	"time"

	"github.com/pquerna/otp/totp"
)

func TestZZF10TotpLockout(t *testing.T) {
	state, passwdFile, err := setupValidRuntimeStateSigner(t)
	if err != nil {
		t.Fatal(err)
	}
	defer os.Remove(passwdFile.Name())
	state.signerPublicKeyToKeymasterKeys()
	dir, err := ioutil.TempDir("", "zzf10")
	if err != nil {
		t.Fatal(err)
	}
	defer os.RemoveAll(dir)
	state.Config.Base.DataDirectory = dir
	if err := initDB(state); err != nil {
		t.Fatal(err)
	}
	_, secret, err := setupTestStateWithTOTPSecret(t, state, AuthTypePassword)
	if err != nil {
		t.Fatal(err)
	}
	good, err := totp.GenerateCode(secret, time.Now())
	if err != nil {
		t.Fatal(err)
	}
	goodVal, _ := strconv.Atoi(good)
	skipSpacing := func() { // let the 2-second spacing pass without sleeping
		state.totpLocalTateLimitMutex.Lock()
		rl := state.totpLocalRateLimit["username"]
		rl.lastCheckTime = time.Time{}
		state.totpLocalRateLimit["username"] = rl
		state.totpLocalTateLimitMutex.Unlock()
	}
	for i := 0; i < numFailedTOTPChecksForTimeoutIncrease; i++ {
		skipSpacing()
		ok, err := state.validateUserTOTP("username", (goodVal+1+i)%1000000, time.Now())
		if ok || err != nil {
			t.Fatalf("wrong code %d: ok=%v err=%v", i, ok, err)
		}
	}
	skipSpacing()
	ok, err := state.validateUserTOTP("username", goodVal, time.Now())
	if ok {
		t.Fatalf("after %d consecutive failures the user is not locked out: a correct code was evaluated and accepted", numFailedTOTPChecksForTimeoutIncrease)
	}
	state.dbDone <- struct{}{}
}
