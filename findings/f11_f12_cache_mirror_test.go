package main

// Triage demonstration for findings F11 and F12 (C15): the cache synchronisation issued
// `destination.Query("DELETE from user_profile")` on the pool - outside the transaction and, with sqlite, never
// executed (the statement is prepared, the rows closed without Next) - and never deleted signed records, so
// users and signed records deleted from the primary stayed in the offline cache for ever. cleanupDBData had the
// same Query-for-DML shape and was a no-op.
import (
	"os"
	"testing"
	"time"
)

func zzCount(t *testing.T, state *RuntimeState, table string) int {
	var n int
	if err := state.cacheDB.QueryRow("select count(*) from " + table).Scan(&n); err != nil {
		t.Fatal(err)
	}
	return n
}

func TestZZF11CacheMirrorsDeletes(t *testing.T) {
	state, tmpdir, err := newTestingState(t)
	if err != nil {
		t.Fatal(err)
	}
	defer os.RemoveAll(tmpdir)
	if err := initDB(state); err != nil {
		t.Fatal(err)
	}
	defer close(state.dbDone)
	signer, err := getSignerFromPEMBytes([]byte(testSignerPrivateKey))
	if err != nil {
		t.Fatal(err)
	}
	state.Signer = signer
	state.signerPublicKeyToKeymasterKeys()
	for _, u := range []string{"alice", "bob"} {
		if err := state.SaveUserProfile(u, &userProfile{}); err != nil {
			t.Fatal(err)
		}
		if err := state.UpsertSigned(u, 1, time.Now().Add(time.Hour).Unix(), "hash-"+u); err != nil {
			t.Fatal(err)
		}
	}
	if err := copyDBIntoSQLite(state.db, state.cacheDB, "sqlite"); err != nil {
		t.Fatal(err)
	}
	if zzCount(t, state, "user_profile") != 2 || zzCount(t, state, "expiring_signed_user_data") != 2 {
		t.Fatal("setup: cache should have 2 users and 2 signed records")
	}
	if err := state.DeleteUserProfile("bob"); err != nil {
		t.Fatal(err)
	}
	if err := state.DeleteSigned("bob", 1); err != nil {
		t.Fatal(err)
	}
	if err := copyDBIntoSQLite(state.db, state.cacheDB, "sqlite"); err != nil {
		t.Fatal(err)
	}
	if n := zzCount(t, state, "user_profile"); n != 1 {
		t.Errorf("user deleted from the primary is still in the cache after a completed synchronisation: %d users", n)
	}
	if n := zzCount(t, state, "expiring_signed_user_data"); n != 1 {
		t.Errorf("signed record deleted from the primary is still in the cache after a completed synchronisation: %d records", n)
	}
	// cleanup of expired signed data must actually delete
	if _, err := state.cacheDB.Exec("update expiring_signed_user_data set expiration_epoch = 1"); err != nil {
		t.Fatal(err)
	}
	if err := cleanupDBData(state.cacheDB); err != nil {
		t.Fatal(err)
	}
	if n := zzCount(t, state, "expiring_signed_user_data"); n != 0 {
		t.Errorf("cleanupDBData left %d expired records", n)
	}
}
