package main

// Triage demonstration for finding F15 (C18): the hidden login_destination input is built by string
// concatenation and handed to the template as trusted template.HTML; its only "sanitiser" was
// url.Parse(..).String(), which leaves the query string verbatim, so a destination could close the attribute
// and inject markup into the login and second-factor pages.
import (
	"net/http"
	"net/http/httptest"
	"os"
	"strings"
	"testing"
)

func TestZZF15DestinationIsInert(t *testing.T) {
	state, passwdFile, err := setupValidRuntimeStateSigner(t)
	if err != nil {
		t.Fatal(err)
	}
	defer os.Remove(passwdFile.Name())
	if err := state.loadTemplates(); err != nil {
		t.Fatal(err)
	}
	const payload = `/?x="><canary a="`
	rr := httptest.NewRecorder()
	state.writeHTMLLoginPage(rr, httptest.NewRequest("GET", "/", nil), http.StatusOK, "", payload, "")
	if strings.Contains(rr.Body.String(), `<canary`) {
		t.Errorf("login page contains an element that originates from the destination")
	}
	rr = httptest.NewRecorder()
	if err := state.writeHTML2FAAuthPage(rr, httptest.NewRequest("GET", "/", nil), payload, false, false); err != nil {
		t.Fatal(err)
	}
	if strings.Contains(rr.Body.String(), `<canary`) {
		t.Errorf("second-factor page contains an element that originates from the destination")
	}
	if !strings.Contains(rr.Body.String(), `VALUE="/?x=&#34;&gt;&lt;canary a=&#34;"`) {
		t.Errorf("destination not rendered as an inert attribute value")
	}
}
