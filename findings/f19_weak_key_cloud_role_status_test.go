package aws_identity_cert

// Triage demonstration for finding F19 (C10): on the cloud-role path a weak key was refused by the certificate
// generator with an error, which the request handler answered with 500 instead of a client-error status.
// Copy into /repo/lib/server/aws_identity_cert.
import (
	"bytes"
	"crypto/rand"
	"crypto/rsa"
	"crypto/x509"
	"encoding/pem"
	"fmt"
	"net/http"
	"net/http/httptest"
	"testing"

	"github.com/Cloud-Foundations/golib/pkg/log/nulllogger"
	"github.com/Cloud-Foundations/keymaster/lib/certgen"
)

func TestZZF19WeakKeyIsClientError(t *testing.T) {
	// the generator keymasterd injects (cmd/keymasterd generateRoleCert) starts like this
	generator := func(template *x509.Certificate, publicKey interface{}) ([]byte, error) {
		strong, err := certgen.ValidatePublicKeyStrength(publicKey)
		if err != nil {
			return nil, err
		}
		if !strong {
			return nil, fmt.Errorf("key too weak")
		}
		return []byte("der"), nil
	}
	issuer := &Issuer{presignCallerClient: &testCallerType{awsClaimedArnGood},
		params: Params{CertificateGenerator: generator, AccountIdValidator: nullAccountIdValidator,
			FailureWriter: defaultFailureWriter, Logger: nulllogger.New()}}
	weak, err := rsa.GenerateKey(rand.Reader, 1024)
	if err != nil {
		t.Fatal(err)
	}
	der, _ := x509.MarshalPKIXPublicKey(weak.Public())
	body := pem.EncodeToMemory(&pem.Block{Type: "PUBLIC KEY", Bytes: der})
	req := httptest.NewRequest("POST", "/aws/requestRoleCertificate/v1", bytes.NewReader(body))
	req.Header.Set("claimed-arn", awsClaimedArnGood)
	req.Header.Set("presigned-method", "GET")
	req.Header.Set("presigned-url", "https://some.website/")
	rr := httptest.NewRecorder()
	if cert := issuer.requestHandler(rr, req); cert != nil {
		t.Fatal("weak key certified")
	}
	if rr.Code < 400 || rr.Code > 499 {
		t.Fatalf("weak key refused with status %d, want a client-error status", rr.Code)
	}
	_ = http.StatusBadRequest
}
