package main

// Triage demonstration for finding F4 (C05): a factor proven by bob (client certificate + bob's bootstrap OTP)
// upgraded whatever auth_cookie the request carried - here alice's password-level cookie.
import (
	"net/http"
	"net/http/httptest"
	"net/url"
	"os"
	"strings"
	"testing"
	"time"

	"github.com/Cloud-Foundations/keymaster/lib/instrumentedwriter"
)

func TestZZF04UpgradeBoundToUser(t *testing.T) {
	state, tmpdir, err := testCreateRuntimeStateWithBootstrapOTP(t, time.Minute)
	if err != nil {
		t.Fatal(err)
	}
	defer os.RemoveAll(tmpdir)
	recorder := httptest.NewRecorder()
	w := &instrumentedwriter.LoggingWriter{ResponseWriter: recorder}
	req := httptest.NewRequest("POST", "/", nil)
	req.TLS, err = testMakeConnectionState("testdata/bob.pem", "testdata/KeymasterCA.pem")
	req.Form = make(url.Values)
	req.Form.Add("OTP", testBootstrapOTP)
	aliceCookie, err := state.setNewAuthCookie(nil, "alice", AuthTypePassword)
	if err != nil {
		t.Fatal(err)
	}
	req.AddCookie(&http.Cookie{Name: authCookieName, Value: aliceCookie})
	state.BootstrapOtpAuthHandler(w, req)
	resp := recorder.Result()
	for _, c := range resp.Cookies() {
		if c.Name != authCookieName {
			continue
		}
		info, err := state.getAuthInfoFromAuthJWT(c.Value)
		if err != nil {
			t.Fatal(err)
		}
		if info.Username == "alice" && info.AuthType&AuthTypeBootstrapOTP != 0 {
			t.Fatalf("alice's session gained a factor proven by bob: level=%#x status=%d", info.AuthType, resp.StatusCode)
		}
	}
	if resp.StatusCode == http.StatusOK && !strings.Contains(resp.Status, "OK") {
		t.Fatal("unexpected")
	}
}
