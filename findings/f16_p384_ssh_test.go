package main

// Triage demonstration for finding F16 (C19): the client offers P-384 SSH keys (keyPreference "p384" ->
// ecdsa-sha2-nistp384), which pass the server's strength rule, but the server's key-type pattern only listed
// nistp256, so every such request was refused with 400.
import (
	"crypto/ecdsa"
	"crypto/elliptic"
	"crypto/rand"
	"testing"

	"golang.org/x/crypto/ssh"
)

func TestZZF16ServerAcceptsOfferedKeyTypes(t *testing.T) {
	for _, curve := range []elliptic.Curve{elliptic.P256(), elliptic.P384()} {
		key, err := ecdsa.GenerateKey(curve, rand.Reader)
		if err != nil {
			t.Fatal(err)
		}
		pub, err := ssh.NewPublicKey(key.Public())
		if err != nil {
			t.Fatal(err)
		}
		_, userErr, err := getValidSSHPublicKey(string(ssh.MarshalAuthorizedKey(pub)))
		if err != nil || userErr != nil {
			t.Errorf("key type %s offered by the client is refused by the server: %v %v", pub.Type(), userErr, err)
		}
	}
}
