package main

// Demonstration for known finding K1 (C16): profile read-modify-write is not serialised. Two concurrent,
// individually acknowledged (200) token-management requests on the same user - disable device 1, rename device 2 -
// each load the profile, change it and save it; one save overwrites the other, so an acknowledged disable is undone.
// Copy into /repo/cmd/keymasterd and run: go test -run TestZZK1 ./cmd/keymasterd
import (
	"io/ioutil"
	"net/http"
	"net/url"
	"os"
	"strconv"
	"strings"
	"sync"
	"testing"

	"github.com/Cloud-Foundations/keymaster/lib/webapi/v0/proto"
)

func TestZZK1ProfileLostUpdate(t *testing.T) {
	state, passwdFile, err := setupValidRuntimeStateSigner(t)
	if err != nil {
		t.Fatal(err)
	}
	defer os.Remove(passwdFile.Name())
	state.Config.Base.AllowedAuthBackendsForWebUI = append(state.Config.Base.AllowedAuthBackendsForWebUI, proto.AuthTypePassword)
	dir, err := ioutil.TempDir("", "zzk1")
	if err != nil {
		t.Fatal(err)
	}
	defer os.RemoveAll(dir)
	state.Config.Base.DataDirectory = dir
	if err := initDB(state); err != nil {
		t.Fatal(err)
	}
	defer close(state.dbDone)
	cookieVal, err := state.setNewAuthCookie(nil, "username", AuthTypePassword)
	if err != nil {
		t.Fatal(err)
	}
	post := func(form url.Values) int {
		req, _ := http.NewRequest("POST", totpTokenManagementPath, strings.NewReader(form.Encode()))
		req.AddCookie(&http.Cookie{Name: authCookieName, Value: cookieVal})
		req.Header.Add("Content-Type", "application/x-www-form-urlencoded")
		rr, err := checkRequestHandlerCode(req, state.totpTokenManagerHandler, http.StatusOK)
		if err != nil {
			return 0
		}
		return rr.Code
	}
	lost := 0
	const rounds = 300
	for i := 0; i < rounds && lost == 0; i++ {
		profile := &userProfile{TOTPAuthData: map[int64]*totpAuthData{
			1: {Name: "one", Enabled: true}, 2: {Name: "two", Enabled: true}}}
		if err := state.SaveUserProfile("username", profile); err != nil {
			t.Fatal(err)
		}
		var wg sync.WaitGroup
		var c1, c2 int
		wg.Add(2)
		go func() {
			defer wg.Done()
			c1 = post(url.Values{"username": {"username"}, "index": {"1"}, "action": {"Disable"}})
		}()
		go func() {
			defer wg.Done()
			c2 = post(url.Values{"username": {"username"}, "index": {"2"}, "action": {"Update"}, "name": {"renamed" + strconv.Itoa(i)}})
		}()
		wg.Wait()
		if c1 != 200 || c2 != 200 {
			continue // one of them failed outright (e.g. sqlite busy): not acknowledged, not counted
		}
		p, _, _, err := state.LoadUserProfile("username")
		if err != nil {
			t.Fatal(err)
		}
		if p.TOTPAuthData[1].Enabled || p.TOTPAuthData[2].Name == "two" {
			lost++
			t.Logf("round %d: both requests answered 200 but disabled=%v renamed=%v", i, !p.TOTPAuthData[1].Enabled, p.TOTPAuthData[2].Name != "two")
		}
	}
	if lost > 0 {
		t.Fatalf("an acknowledged change was undone by a concurrent request on the same user (%d lost update(s))", lost)
	}
}
