package main

// Triage demonstration for finding F17 (C20): certificates issued on the cloud-role path (generateRoleCert,
// the CertificateGenerator of the AWS identity issuer) were never published to event subscribers.
import (
	"bufio"
	"crypto/ecdsa"
	"crypto/elliptic"
	"crypto/rand"
	"crypto/x509"
	"crypto/x509/pkix"
	"encoding/base64"
	"fmt"
	"math/big"
	"net"
	"net/http/httptest"
	"os"
	"strings"
	"testing"
	"time"
)

func TestZZF17RoleCertPublished(t *testing.T) {
	state, passwdFile, err := setupValidRuntimeStateSigner(t)
	if err != nil {
		t.Fatal(err)
	}
	defer os.Remove(passwdFile.Name())
	srv := httptest.NewServer(eventNotifier)
	defer srv.Close()
	conn, err := net.Dial("tcp", strings.TrimPrefix(srv.URL, "http://"))
	if err != nil {
		t.Fatal(err)
	}
	defer conn.Close()
	fmt.Fprintf(conn, "CONNECT /eventmon/v0 HTTP/1.0\r\n\r\n")
	rd := bufio.NewReader(conn)
	conn.SetReadDeadline(time.Now().Add(2 * time.Second))
	if line, err := rd.ReadString('\n'); err != nil || !strings.Contains(line, "200") {
		t.Fatalf("subscribe: %q %v", line, err)
	}
	time.Sleep(100 * time.Millisecond) // let the server side register the channel
	key, _ := ecdsa.GenerateKey(elliptic.P256(), rand.Reader)
	template := &x509.Certificate{SerialNumber: big.NewInt(7), Subject: pkix.Name{CommonName: "aws:iam:1:role"},
		NotBefore: time.Now(), NotAfter: time.Now().Add(time.Hour)}
	der, err := state.generateRoleCert(template, key.Public())
	if err != nil {
		t.Fatal(err)
	}
	want := base64.StdEncoding.EncodeToString(der)
	conn.SetReadDeadline(time.Now().Add(time.Second))
	var got strings.Builder
	for {
		line, err := rd.ReadString('\n')
		got.WriteString(line)
		if strings.Contains(got.String(), want) {
			return // published with exactly the issued bytes
		}
		if err != nil {
			break
		}
	}
	t.Fatalf("cloud-role certificate was signed but never published to the subscriber (received %q)", got.String())
}
