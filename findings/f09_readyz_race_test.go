package main

// Triage demonstration for finding F9 (C16, C09): readyzHandler (admin port, served while sealed) read
// state.Signer without the mutex while unsealCA writes it under the mutex: a data race.
// Run with: go test -race -run TestZZF09 ./cmd/keymasterd
import (
	"net/http/httptest"
	"os"
	"sync"
	"testing"
)

func TestZZF09ReadyzRace(t *testing.T) {
	state, passwdFile, err := setupValidRuntimeStateSigner(t)
	if err != nil {
		t.Fatal(err)
	}
	defer os.Remove(passwdFile.Name())
	signer := state.Signer
	state.Signer = nil
	var wg sync.WaitGroup
	wg.Add(1)
	go func() {
		defer wg.Done()
		for i := 0; i < 200; i++ {
			state.readyzHandler(httptest.NewRecorder(), httptest.NewRequest("GET", readyzPath, nil))
		}
	}()
	for i := 0; i < 200; i++ {
		state.Mutex.Lock() // what unsealCA / loadSignersFromPemData do
		state.Signer = signer
		state.Mutex.Unlock()
	}
	wg.Wait()
}
