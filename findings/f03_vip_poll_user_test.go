package main

// Triage demonstration for finding F3 (C05): VIPPollCheckHandler looked the push transaction up by the
// unauthenticated vip_push_cookie value and never compared its user with the session's user, so a push
// approved by bob's device upgraded alice's session.
import (
	"crypto/x509"
	"fmt"
	"net/http"
	"net/http/httptest"
	"os"
	"testing"
	"time"

	"github.com/Cloud-Foundations/keymaster/lib/instrumentedwriter"
	"github.com/Cloud-Foundations/keymaster/lib/vip"
)

const zzApprovedPoll = `<?xml version="1.0"?>
<S:Envelope xmlns:S="http://schemas.xmlsoap.org/soap/envelope/"><S:Body>
<PollPushStatusResponse xmlns="https://schemas.symantec.com/vip/2011/04/vipuserservices">
<requestId>x</requestId><status>0000</status><statusMessage>Success</statusMessage>
<transactionStatus><transactionId>bobtx</transactionId><status>7000</status><statusMessage>approved</statusMessage></transactionStatus>
</PollPushStatusResponse></S:Body></S:Envelope>`

func TestZZF03VipPollBoundToUser(t *testing.T) {
	state, passwdFile, err := setupValidRuntimeStateSigner(t)
	if err != nil {
		t.Fatal(err)
	}
	defer os.Remove(passwdFile.Name())
	srv := httptest.NewTLSServer(http.HandlerFunc(func(w http.ResponseWriter, r *http.Request) {
		fmt.Fprint(w, zzApprovedPoll)
	}))
	defer srv.Close()
	pool := x509.NewCertPool()
	pool.AddCert(srv.Certificate())
	state.Config.SymantecVIP.Enabled = true
	state.Config.SymantecVIP.Client = &vip.Client{Cert: srv.TLS.Certificates[0], VipUserServicesURL: srv.URL, VipUserServiceAuthenticationURL: srv.URL, RootCAs: pool}
	state.vipPushCookie = map[string]pushPollTransaction{
		// bob started (and his device approved) this push
		"bobpushcookie": {Username: "bob", TransactionID: "bobtx", ExpiresAt: time.Now().Add(time.Minute)},
	}
	recorder := httptest.NewRecorder()
	w := &instrumentedwriter.LoggingWriter{ResponseWriter: recorder}
	req := httptest.NewRequest("GET", vipPollCheckPath, nil)
	aliceCookie, err := state.setNewAuthCookie(nil, "alice", AuthTypePassword)
	if err != nil {
		t.Fatal(err)
	}
	req.AddCookie(&http.Cookie{Name: authCookieName, Value: aliceCookie})
	req.AddCookie(&http.Cookie{Name: vipTransactionCookieName, Value: "bobpushcookie"})
	state.VIPPollCheckHandler(w, req)
	resp := recorder.Result()
	for _, c := range resp.Cookies() {
		if c.Name != authCookieName {
			continue
		}
		info, err := state.getAuthInfoFromAuthJWT(c.Value)
		if err == nil && info.Username == "alice" && info.AuthType&AuthTypeSymantecVIP != 0 {
			t.Fatalf("alice's session gained the VIP factor from bob's push: level=%#x status=%d", info.AuthType, resp.StatusCode)
		}
	}
	if resp.StatusCode == http.StatusOK {
		t.Fatalf("poll by another user answered 200")
	}
}
