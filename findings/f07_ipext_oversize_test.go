package certgen

// Triage demonstration for finding F7 (C10, C11): an address extension whose BIT STRING is longer than 32 bits
// made decodeIPV4AddressChoice index past its 4-byte array -> handler panic. Copy into /repo/lib/certgen.
import (
	"crypto/x509"
	"crypto/x509/pkix"
	"encoding/asn1"
	"testing"
)

func TestZZF07OversizedAddressExtension(t *testing.T) {
	fam := []IpAdressFamily{{AddressFamily: ipV4FamilyEncoding, Addresses: []asn1.BitString{{Bytes: []byte{10, 0, 0, 0, 0}, BitLength: 40}}}}
	val, err := asn1.Marshal(fam)
	if err != nil {
		t.Fatal(err)
	}
	cert := &x509.Certificate{Extensions: []pkix.Extension{{Id: oidIPAddressDelegation, Value: val}}}
	defer func() {
		if r := recover(); r != nil {
			t.Fatalf("panic on oversized address extension: %v", r)
		}
	}()
	ok, err := VerifyIPRestrictedX509CertIP(cert, "10.0.0.1:1234")
	if ok || err == nil {
		t.Fatalf("oversized extension must be rejected with an error: ok=%v err=%v", ok, err)
	}
	if _, err := ExtractIPNetsFromIPRestrictedX509(cert); err == nil {
		t.Fatalf("oversized extension must be rejected by extraction")
	}
}
