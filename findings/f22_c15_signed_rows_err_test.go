package main

// Triage demonstration for finding F22 (C15): copyDBIntoSQLite checks rows.Err() after copying the profiles
// but not after copying the signed records, so a primary that fails in the middle of the second result set
// yields a committed cache that is neither its previous nor its new content. (The fault-injecting driver is
// adapted from the demonstration a seeding sub-agent wrote for the sibling loop.)
//
// Property clause exercised: "A synchronisation that fails or is interrupted
// at any step leaves the cache equal to its previous or its new content,
// never a mixture."
//
// The primary is read through a thin database/sql driver that wraps the
// sqlite3 driver and can make the result cursor of the user_profile query
// fail after having delivered k rows (what a dropped connection to the
// primary looks like in the middle of a result set). For every k the cache
// must afterwards be byte-identical either to what it held before the
// synchronisation or to the primary.

import (
	"database/sql"
	"database/sql/driver"
	"errors"
	"fmt"
	"os"
	"path/filepath"
	"strings"
	"sync"
	"testing"
	"time"

	"github.com/mattn/go-sqlite3"
)

// ---- fault injecting driver -------------------------------------------------

var zzf22Fault struct {
	sync.Mutex
	armed     bool
	failAfter int // number of rows delivered before the cursor fails
	tripped   bool
}

type zzf22Driver struct{ inner driver.Driver }

func (d *zzf22Driver) Open(name string) (driver.Conn, error) {
	conn, err := d.inner.Open(name)
	if err != nil {
		return nil, err
	}
	return &zzf22Conn{conn}, nil
}

// Only the basic driver.Conn methods are promoted, so database/sql uses the
// Prepare + Stmt.Query path, which lets the rows be wrapped.
type zzf22Conn struct{ inner driver.Conn }

func (c *zzf22Conn) Prepare(query string) (driver.Stmt, error) {
	stmt, err := c.inner.Prepare(query)
	if err != nil {
		return nil, err
	}
	return &zzf22Stmt{Stmt: stmt, query: query}, nil
}
func (c *zzf22Conn) Close() error              { return c.inner.Close() }
func (c *zzf22Conn) Begin() (driver.Tx, error) { return c.inner.Begin() }

type zzf22Stmt struct {
	driver.Stmt
	query string
}

func (s *zzf22Stmt) Query(args []driver.Value) (driver.Rows, error) {
	rows, err := s.Stmt.Query(args)
	if err != nil {
		return nil, err
	}
	if strings.Contains(strings.ToLower(s.query), "from expiring_signed_user_data") {
		return &zzf22Rows{Rows: rows}, nil
	}
	return rows, nil
}

type zzf22Rows struct {
	driver.Rows
	delivered int
}

func (r *zzf22Rows) Next(dest []driver.Value) error {
	zzf22Fault.Lock()
	fail := zzf22Fault.armed && r.delivered >= zzf22Fault.failAfter
	if fail {
		zzf22Fault.tripped = true
	}
	zzf22Fault.Unlock()
	if fail {
		return errors.New("injected: connection to primary lost while reading")
	}
	err := r.Rows.Next(dest)
	if err == nil {
		r.delivered++
	}
	return err
}

func init() {
	sql.Register("zzf22faultsqlite", &zzf22Driver{&sqlite3.SQLiteDriver{}})
}

// ---- helpers ----------------------------------------------------------------

func zzf22Snapshot(t *testing.T, db *sql.DB) string {
	var sb strings.Builder
	rows, err := db.Query(
		"select username, profile_data from user_profile order by username")
	if err != nil {
		t.Fatal(err)
	}
	for rows.Next() {
		var name string
		var data []byte
		if err := rows.Scan(&name, &data); err != nil {
			t.Fatal(err)
		}
		fmt.Fprintf(&sb, "P|%s|%x\n", name, data)
	}
	if err := rows.Err(); err != nil {
		t.Fatal(err)
	}
	rows.Close()
	rows, err = db.Query("select username, type, jws_data, expiration_epoch " +
		"from expiring_signed_user_data order by username, type")
	if err != nil {
		t.Fatal(err)
	}
	for rows.Next() {
		var name, jws string
		var dataType int
		var exp int64
		if err := rows.Scan(&name, &dataType, &jws, &exp); err != nil {
			t.Fatal(err)
		}
		fmt.Fprintf(&sb, "S|%s|%d|%s|%d\n", name, dataType, jws, exp)
	}
	if err := rows.Err(); err != nil {
		t.Fatal(err)
	}
	rows.Close()
	return sb.String()
}

func zzf22Users(snapshot string) []string {
	var names []string
	for _, line := range strings.Split(snapshot, "\n") {
		if strings.HasPrefix(line, "P|") {
			names = append(names, strings.Split(line, "|")[1])
		}
	}
	return names
}

func zzf22Profile(name string) *userProfile {
	profile := &userProfile{
		U2fAuthData:  make(map[int64]*u2fAuthData),
		TOTPAuthData: make(map[int64]*totpAuthData),
		DisplayName:  name,
		Username:     name,
	}
	profile.TOTPAuthData[1] = &totpAuthData{
		Enabled:         true,
		Name:            "token of " + name,
		EncryptedSecret: [][]byte{[]byte("secret-" + name)},
	}
	return profile
}

// ---- the demonstration ------------------------------------------------------

func TestZZF22InterruptedSyncLeavesOldOrNewCache(t *testing.T) {
	state, tmpdir, err := newTestingState(t)
	if err != nil {
		t.Fatal(err)
	}
	defer os.RemoveAll(tmpdir)
	if err := initDB(state); err != nil {
		t.Fatal(err)
	}
	state.dbDone <- struct{}{} // no background copies: the test drives them
	signer, err := getSignerFromPEMBytes([]byte(testSignerPrivateKey))
	if err != nil {
		t.Fatal(err)
	}
	state.Signer = signer
	state.signerPublicKeyToKeymasterKeys()

	// A second handle on the primary, through the fault injecting driver.
	faultyPrimary, err := sql.Open("zzf22faultsqlite",
		filepath.Join(tmpdir, profileDBFilename))
	if err != nil {
		t.Fatal(err)
	}
	defer faultyPrimary.Close()
	faultyPrimary.SetMaxIdleConns(0)

	const numUsers = 5
	for k := 0; k <= numUsers+1; k++ {
		// Bring primary to a known "old" content and mirror it (no fault).
		for _, name := range []string{"u1", "u2", "u3", "u4", "u5", "u6"} {
			if err := state.DeleteUserProfile(name); err != nil {
				t.Fatal(err)
			}
		}
		for _, name := range []string{"u1", "u2", "u3", "u4", "u5"} {
			err := state.SaveUserProfile(name, zzf22Profile(name))
			if err != nil {
				t.Fatal(err)
			}
		}
		for _, name := range []string{"u2", "u3", "u4", "u5"} {
			err = state.UpsertSigned(name, 1, time.Now().Add(time.Hour).Unix(),
				"signed-"+name)
			if err != nil {
				t.Fatal(err)
			}
		}
		if err := copyDBIntoSQLite(state.db, state.cacheDB,
			"sqlite"); err != nil {
			t.Fatal(err)
		}
		oldContent := zzf22Snapshot(t, state.cacheDB)
		if oldContent != zzf22Snapshot(t, state.db) {
			t.Fatal("fault-free synchronisation is not a mirror")
		}
		// History on the primary: a deletion, a change and an addition.
		if err := state.DeleteUserProfile("u1"); err != nil {
			t.Fatal(err)
		}
		changed := zzf22Profile("u3")
		changed.TOTPAuthData[1].Enabled = false
		changed.TOTPAuthData[2] = &totpAuthData{Enabled: true, Name: "second"}
		if err := state.SaveUserProfile("u3", changed); err != nil {
			t.Fatal(err)
		}
		if err := state.SaveUserProfile("u6",
			zzf22Profile("u6")); err != nil {
			t.Fatal(err)
		}
		// and the signed record of one user is replaced (a password change)
		err = state.UpsertSigned("u4", 1, time.Now().Add(2*time.Hour).Unix(),
			"signed-u4-new")
		if err != nil {
			t.Fatal(err)
		}
		newContent := zzf22Snapshot(t, state.db)

		// Synchronise, the primary failing after k profile rows.
		zzf22Fault.Lock()
		zzf22Fault.armed = true
		zzf22Fault.failAfter = k
		zzf22Fault.tripped = false
		zzf22Fault.Unlock()
		syncErr := copyDBIntoSQLite(faultyPrimary, state.cacheDB, "sqlite")
		zzf22Fault.Lock()
		zzf22Fault.armed = false
		tripped := zzf22Fault.tripped
		zzf22Fault.Unlock()

		after := zzf22Snapshot(t, state.cacheDB)
		switch after {
		case oldContent, newContent:
			// fine
		default:
			t.Errorf("fault after %d signed-record rows (tripped=%v, sync err=%v): "+
				"cache is neither its previous nor its new content: "+
				"previous users=%v, primary users=%v, cache users=%v",
				k, tripped, syncErr, zzf22Users(oldContent),
				zzf22Users(newContent), zzf22Users(after))
		}
		if tripped && syncErr == nil {
			t.Errorf("fault after %d signed-record rows: the read of the primary "+
				"failed but the synchronisation reported success", k)
		}
		if !tripped && (syncErr != nil || after != newContent) {
			t.Errorf("k=%d: no fault fired, yet err=%v, mirror=%v", k,
				syncErr, after == newContent)
		}
	}
}
