package main

// Triage demonstration for finding F13 (C15): webauthnAuthFinish discarded LoadUserProfile's fromCache result and
// saved the profile it had read. When the read was served by the offline cache (primary slow / timed out) the
// stale cached profile was written over the primary's newer one - here re-enabling a TOTP device that the user
// had disabled after the last synchronisation.
import (
	"bytes"
	"crypto/ecdsa"
	"crypto/elliptic"
	"crypto/rand"
	"crypto/sha256"
	"crypto/x509"
	"crypto/x509/pkix"
	"encoding/asn1"
	"encoding/base64"
	"encoding/json"
	"math/big"
	"net/http"
	"net/http/httptest"
	"os"
	"testing"
	"time"

	"github.com/Cloud-Foundations/keymaster/lib/instrumentedwriter"
	"github.com/duo-labs/webauthn/webauthn"
	"github.com/tstranex/u2f"
)

func TestZZF13NoSaveFromCache(t *testing.T) {
	state, tmpdir, err := testCreateRuntimeStateWithBothCAs(t)
	if err != nil {
		t.Fatal(err)
	}
	defer os.RemoveAll(tmpdir)
	defer close(state.dbDone)
	state.localAuthData = make(map[string]localUserData)
	state.webAuthn, err = webauthn.New(&webauthn.Config{RPDisplayName: "km", RPID: "km.example.com", RPOrigin: "https://km.example.com"})
	if err != nil {
		t.Fatal(err)
	}
	// a software U2F token with a syntactically valid registration blob (needed for gob round trips)
	key, _ := ecdsa.GenerateKey(elliptic.P256(), rand.Reader)
	attKey, _ := ecdsa.GenerateKey(elliptic.P256(), rand.Reader)
	tmpl := &x509.Certificate{SerialNumber: big.NewInt(1), Subject: pkix.Name{CommonName: "soft token"}, NotBefore: time.Now().Add(-time.Hour), NotAfter: time.Now().Add(time.Hour)}
	attDer, err := x509.CreateCertificate(rand.Reader, tmpl, tmpl, attKey.Public(), attKey)
	if err != nil {
		t.Fatal(err)
	}
	keyHandle := []byte("0123456789abcdef")
	raw := []byte{0x05}
	raw = append(raw, elliptic.Marshal(elliptic.P256(), key.X, key.Y)...)
	raw = append(raw, byte(len(keyHandle)))
	raw = append(raw, keyHandle...)
	raw = append(raw, attDer...)
	dummySig, _ := asn1.Marshal(struct{ R, S *big.Int }{big.NewInt(1), big.NewInt(1)})
	raw = append(raw, dummySig...)
	var reg u2f.Registration
	if err := reg.UnmarshalBinary(raw); err != nil {
		t.Fatal(err)
	}
	mk := func(totpEnabled bool) *userProfile {
		return &userProfile{
			U2fAuthData:  map[int64]*u2fAuthData{1: {Enabled: true, Registration: &reg}},
			TOTPAuthData: map[int64]*totpAuthData{5: {Enabled: totpEnabled, Name: "phone"}},
		}
	}
	// v1 (TOTP device enabled) is synchronised into the cache ...
	if err := state.SaveUserProfile("alice", mk(true)); err != nil {
		t.Fatal(err)
	}
	if err := copyDBIntoSQLite(state.db, state.cacheDB, "sqlite"); err != nil {
		t.Fatal(err)
	}
	// ... then alice disables the TOTP device (v2, primary only, acknowledged)
	if err := state.SaveUserProfile("alice", mk(false)); err != nil {
		t.Fatal(err)
	}
	// the primary is now too slow: reads are served from the cache
	state.remoteDBQueryTimeout = 0
	challenge := "c2VydmVyLWNoYWxsZW5nZS0wMDAwMDAwMDAwMDAwMDAwMDA"
	state.localAuthData["alice"] = localUserData{WebAuthnChallenge: &webauthn.SessionData{Challenge: challenge}, ExpiresAt: time.Now().Add(30 * time.Second)}
	enc := base64.RawURLEncoding
	clientData, _ := json.Marshal(map[string]string{"type": "webauthn.get", "challenge": challenge, "origin": "https://km.example.com"})
	rpHash := sha256.Sum256([]byte("km.example.com"))
	authData := append(rpHash[:], 0x01, 0, 0, 0, 9)
	cdHash := sha256.Sum256(clientData)
	h := sha256.Sum256(append(append([]byte{}, authData...), cdHash[:]...))
	sig, err := ecdsa.SignASN1(rand.Reader, key, h[:])
	if err != nil {
		t.Fatal(err)
	}
	body, _ := json.Marshal(map[string]any{"id": enc.EncodeToString(keyHandle), "rawId": enc.EncodeToString(keyHandle), "type": "public-key",
		"response": map[string]string{"authenticatorData": enc.EncodeToString(authData), "clientDataJSON": enc.EncodeToString(clientData), "signature": enc.EncodeToString(sig)}})
	recorder := httptest.NewRecorder()
	w := &instrumentedwriter.LoggingWriter{ResponseWriter: recorder}
	req := httptest.NewRequest("POST", webAuthnAuthFinishPath, bytes.NewReader(body))
	cookie, err := state.setNewAuthCookie(nil, "alice", AuthTypePassword)
	if err != nil {
		t.Fatal(err)
	}
	req.AddCookie(&http.Cookie{Name: authCookieName, Value: cookie})
	state.webauthnAuthFinish(w, req)
	if recorder.Result().StatusCode != http.StatusOK {
		t.Fatalf("authentication from the cache must keep working: %d %s", recorder.Result().StatusCode, recorder.Body.String())
	}
	time.Sleep(300 * time.Millisecond) // the save is fired in a goroutine
	state.remoteDBQueryTimeout = 2 * time.Second
	p, _, fromCache, err := state.LoadUserProfile("alice")
	if err != nil || fromCache {
		t.Fatal(err, fromCache)
	}
	if p.TOTPAuthData[5].Enabled {
		t.Fatalf("the stale cached profile was written over the primary: the acknowledged disable of the TOTP device was undone")
	}
}
