package main

// Triage demonstration for finding F6 (C06, C11): the role-requesting CA shares its key with the user CA, and
// getUsernameIfKeymasterSigned identified the issuer by key fingerprint only, so an IP-restricted automation
// certificate presented from OUTSIDE its netblocks was admitted as an ordinary keymaster user certificate.
import (
	"crypto/ecdsa"
	"crypto/elliptic"
	"crypto/rand"
	"crypto/tls"
	"crypto/x509"
	"net"
	"net/http/httptest"
	"os"
	"testing"
	"time"
)

func TestZZF06IPCertNotUserCert(t *testing.T) {
	state, passwdFile, err := setupValidRuntimeStateSigner(t)
	if err != nil {
		t.Fatal(err)
	}
	defer os.Remove(passwdFile.Name())
	state.Config.Base.AutomationUsers = []string{"role1"}
	roleCA, err := x509.ParseCertificate(state.selfRoleCaCertDer)
	if err != nil {
		t.Fatal(err)
	}
	key, _ := ecdsa.GenerateKey(elliptic.P256(), rand.Reader)
	_, netblock, _ := net.ParseCIDR("10.0.0.0/8")
	params := &roleRequestingCertGenParams{Role: "role1", Duration: time.Hour, RequestorNetblocks: []net.IPNet{*netblock}, UserPub: key.Public()}
	_, leaf, err := state.withParamsGenerateRoleRequestingCert(params)
	if err != nil {
		t.Fatal(err)
	}
	// a realistic verified chain, as crypto/tls would build it
	pool := x509.NewCertPool()
	pool.AddCert(roleCA)
	chains, err := leaf.Verify(x509.VerifyOptions{Roots: pool, KeyUsages: []x509.ExtKeyUsage{x509.ExtKeyUsageClientAuth}})
	if err != nil {
		t.Fatal(err)
	}
	req := httptest.NewRequest("POST", "/v1/getRoleRequestingCert", nil)
	req.RemoteAddr = "192.168.1.1:4444" // outside 10.0.0.0/8
	req.TLS = &tls.ConnectionState{VerifiedChains: chains}
	w := httptest.NewRecorder()
	authData, err := state.checkAuth(w, req, state.getRequiredWebUIAuthLevel()|AuthTypeKeymasterX509)
	if err == nil {
		t.Fatalf("IP-restricted certificate for 10.0.0.0/8 presented from 192.168.1.1 admitted as user %q with level %#x", authData.Username, authData.AuthType)
	}
	// and still usable from inside its netblock on the route that takes it
	req2 := httptest.NewRequest("POST", "/v1/refreshRoleRequestingCert", nil)
	req2.RemoteAddr = "10.1.2.3:4444"
	req2.TLS = &tls.ConnectionState{VerifiedChains: chains}
	authData, err = state.checkAuth(httptest.NewRecorder(), req2, AuthTypeIPCertificate)
	if err != nil || authData.AuthType != AuthTypeIPCertificate || authData.Username != "role1" {
		t.Fatalf("inside its netblock the certificate must authenticate as IP certificate only: %+v %v", authData, err)
	}
}
