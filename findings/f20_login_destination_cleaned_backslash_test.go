package main

// Triage demonstration for finding F20 (C17): "/./\evil.example" passed the destination filter (its second
// character is '.'), and http.Redirect's path.Clean turned it into "Location: /\evil.example", which a browser
// resolves to //evil.example - off origin. Found by a seeding sub-agent while probing the pristine tree.
import (
	"net/http/httptest"
	"net/url"
	"strings"
	"testing"
	"net/http"
)

func TestZZF20CleanedBackslash(t *testing.T) {
	for _, d := range []string{"/./\\evil.example", "/a/../\\evil.example/x", "/.//\\evil.example"} {
		req := httptest.NewRequest("POST", "/api/v0/login", nil)
		req.Form = url.Values{"login_destination": {d}}
		dest := getLoginDestination(req)
		rr := httptest.NewRecorder()
		http.Redirect(rr, req, dest, 302)
		loc := rr.Header().Get("Location")
		if strings.HasPrefix(loc, "/\\") || strings.HasPrefix(loc, "//") {
			t.Errorf("destination %q is emitted as Location %q, which a browser resolves off-origin", d, loc)
		}
	}
	req := httptest.NewRequest("POST", "/api/v0/login", nil)
	req.Form = url.Values{"login_destination": {"/idp/oauth2/authorize?x=a\\b"}}
	if got := getLoginDestination(req); got != "/idp/oauth2/authorize?x=a\\b" {
		t.Errorf("a backslash in the query must stay allowed, got %q", got)
	}
}
