package main

// Triage demonstration for finding F14 (C17): the destination filter only refused a leading "//"; "/\host" and
// destinations with control characters (which browsers strip, turning "/<TAB>/host" into "//host") passed.
import (
	"net/http/httptest"
	"net/url"
	"testing"
)

func TestZZF14LoginDestination(t *testing.T) {
	for _, d := range []string{"/\\evil.example/x", "/\t/evil.example", "/\n/evil.example", "/\\/evil.example", "/ok\r\nSet-Cookie: x=y"} {
		req := httptest.NewRequest("POST", "/api/v0/login", nil)
		req.Form = url.Values{"login_destination": {d}}
		if got := getLoginDestination(req); got != profilePath {
			t.Errorf("off-origin destination %q returned unchanged", d)
		}
	}
	for _, d := range []string{"/idp/oauth2/authorize?client_id=x&redirect_uri=https%3A%2F%2Fa", "/profile/", "/a\\b"} {
		req := httptest.NewRequest("POST", "/api/v0/login", nil)
		req.Form = url.Values{"login_destination": {d}}
		if got := getLoginDestination(req); got != d {
			t.Errorf("on-origin destination %q refused (got %q)", d, got)
		}
	}
}
