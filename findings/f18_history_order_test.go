package eventrecorder

// Triage demonstration for finding F18 (C20): events are saved newest-first, but loadEvents linked each
// successive (older) saved event as the new `newest`, so every restart reversed each user's history (and broke
// expireOldEvents' early exit, which assumes `oldest` really is the oldest). Copy into /repo/eventmon/eventrecorder.
import (
	"os"
	"path/filepath"
	"reflect"
	"testing"
	"time"
)

func TestZZF18HistoryOrderSurvivesRestart(t *testing.T) {
	dir, err := os.MkdirTemp("", "zzf18")
	if err != nil {
		t.Fatal(err)
	}
	defer os.RemoveAll(dir)
	filename := filepath.Join(dir, "events.gob")
	sr := &EventRecorder{eventsMap: map[string]*eventsListType{}}
	sr.recordWebLoginEvent("alice")
	sr.recordCertEvent("alice", time.Hour, true, false)
	sr.recordSPLoginEvent("alice", "https://sp.example.com")
	now := uint64(time.Now().Unix())
	i := uint64(0)
	for ev := sr.eventsMap["alice"].oldest; ev != nil; ev = ev.newer { // distinct, increasing times
		ev.CreateTime = now - 100 + i
		i++
	}
	var last *Events
	before := sr.getEventsList(&last).Events["alice"]
	if err := saveEvents(filename, sr.getEventsList(&last).Events); err != nil {
		t.Fatal(err)
	}
	loaded, err := loadEvents(filename)
	if err != nil {
		t.Fatal(err)
	}
	sr2 := &EventRecorder{eventsMap: loaded}
	var last2 *Events
	after := sr2.getEventsList(&last2).Events["alice"]
	if !reflect.DeepEqual(before, after) {
		t.Fatalf("history order changed across save and restart:\n before %+v\n after  %+v", before, after)
	}
	l := loaded["alice"]
	if l.oldest.CreateTime > l.newest.CreateTime {
		t.Fatalf("after load, `oldest` is newer than `newest`")
	}
}
