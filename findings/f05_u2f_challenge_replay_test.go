package main

// Triage demonstration for finding F5 (C05, C16): in u2fSignResponse the branch that verifies against a
// WebAuthn-registered key accepted the assertion without consuming the challenge, so the very same signed
// response was accepted again (until the 30 s cleaner ran). The U2F branch deleted the challenge without the lock.
import (
	"bytes"
	"crypto/ecdsa"
	"crypto/elliptic"
	"crypto/rand"
	"crypto/sha256"
	"encoding/asn1"
	"encoding/base64"
	"encoding/json"
	"math/big"
	"net/http"
	"net/http/httptest"
	"os"
	"testing"
	"time"

	"github.com/Cloud-Foundations/keymaster/lib/instrumentedwriter"
	"github.com/duo-labs/webauthn/webauthn"
	"github.com/tstranex/u2f"
)

func TestZZF05ChallengeSingleUse(t *testing.T) {
	state, tmpdir, err := testCreateRuntimeStateWithBothCAs(t)
	if err != nil {
		t.Fatal(err)
	}
	defer os.RemoveAll(tmpdir)
	state.localAuthData = make(map[string]localUserData)
	key, _ := ecdsa.GenerateKey(elliptic.P256(), rand.Reader)
	keyHandle := []byte("handle-1")
	profile := &userProfile{
		U2fAuthData: map[int64]*u2fAuthData{},
		WebauthnData: map[int64]*webauthAuthData{1: {Enabled: true, Credential: webauthn.Credential{
			ID: keyHandle, PublicKey: elliptic.Marshal(elliptic.P256(), key.X, key.Y)}}},
	}
	if err := state.SaveUserProfile("alice", profile); err != nil {
		t.Fatal(err)
	}
	u2fTrustedFacets = []string{u2fAppID}
	c, err := u2f.NewChallenge(u2fAppID, u2fTrustedFacets)
	if err != nil {
		t.Fatal(err)
	}
	state.localAuthData["alice"] = localUserData{U2fAuthChallenge: c, ExpiresAt: time.Now().Add(30 * time.Second)}
	// software token signs the challenge once
	enc := base64.RawURLEncoding
	clientData, _ := json.Marshal(map[string]string{"typ": "navigator.id.getAssertion", "challenge": enc.EncodeToString(c.Challenge), "origin": u2fAppID})
	raw := []byte{1, 0, 0, 0, 5}
	appParam := sha256.Sum256([]byte(u2fAppID))
	ch := sha256.Sum256(clientData)
	var buf []byte
	buf = append(buf, appParam[:]...)
	buf = append(buf, raw...)
	buf = append(buf, ch[:]...)
	h := sha256.Sum256(buf)
	r, s, _ := ecdsa.Sign(rand.Reader, key, h[:])
	sig, _ := asn1.Marshal(struct{ R, S *big.Int }{r, s})
	signResp := u2f.SignResponse{KeyHandle: enc.EncodeToString(keyHandle), SignatureData: enc.EncodeToString(append(raw, sig...)), ClientData: enc.EncodeToString(clientData)}
	body, _ := json.Marshal(signResp)
	post := func() int {
		recorder := httptest.NewRecorder()
		w := &instrumentedwriter.LoggingWriter{ResponseWriter: recorder}
		req := httptest.NewRequest("POST", u2fSignResponsePath, bytes.NewReader(body))
		cookie, err := state.setNewAuthCookie(nil, "alice", AuthTypePassword)
		if err != nil {
			t.Fatal(err)
		}
		req.AddCookie(&http.Cookie{Name: authCookieName, Value: cookie})
		state.u2fSignResponse(w, req)
		return recorder.Result().StatusCode
	}
	if code := post(); code != http.StatusOK {
		t.Fatalf("first presentation of a valid assertion refused: %d", code)
	}
	if code := post(); code == http.StatusOK {
		t.Fatalf("the same signed assertion was accepted a second time")
	}
	state.dbDone <- struct{}{}
}
