package main

// Triage demonstration for finding F1 (C03): negative duration => SSH ValidBefore wraps to ~2^64.
// Copy into /repo/cmd/keymasterd and run: go test -run TestZZF01 ./cmd/keymasterd
import (
	"net/http"
	"os"
	"strings"
	"testing"

	"golang.org/x/crypto/ssh"
)

func TestZZF01NegativeDuration(t *testing.T) {
	state, passwdFile, err := setupValidRuntimeStateSigner(t)
	if err != nil {
		t.Fatal(err)
	}
	defer os.Remove(passwdFile.Name())
	req, err := createKeyBodyRequest("POST", "/certgen/username", testUserSSHPublicKey, "-600000h")
	if err != nil {
		t.Fatal(err)
	}
	cookieVal, err := state.setNewAuthCookie(nil, "username", AuthTypeU2F)
	if err != nil {
		t.Fatal(err)
	}
	req.AddCookie(&http.Cookie{Name: authCookieName, Value: cookieVal})
	rr, err := checkRequestHandlerCode(req, state.certGenHandler, http.StatusBadRequest)
	if err != nil {
		// show what was issued
		rr2, _ := checkRequestHandlerCode(req, state.certGenHandler, http.StatusOK)
		if rr2 != nil {
			pk, _, _, _, perr := ssh.ParseAuthorizedKey(rr2.Body.Bytes())
			if perr == nil {
				c := pk.(*ssh.Certificate)
				t.Fatalf("negative duration accepted: ValidAfter=%d ValidBefore=%d", c.ValidAfter, c.ValidBefore)
			}
		}
		t.Fatal(err)
	}
	if strings.Contains(rr.Body.String(), "ssh-") {
		t.Fatal("certificate in refusal body")
	}
}
