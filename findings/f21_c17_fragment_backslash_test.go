package main

// Triage demonstration for finding F21 (C17): the filter looked for a backslash only up to the first '?' or '#',
// but http.Redirect cuts only at '?' and path.Clean()s everything before it, fragment included:
// "/a#/../\evil.example" was emitted as "Location: /\evil.example". Reported by a seeding sub-agent on the
// tree that already carried the F20 repair.
import (
	"net/http"
	"net/http/httptest"
	"net/url"
	"strings"
	"testing"
)

func TestZZF21FragmentBackslash(t *testing.T) {
	for _, d := range []string{"/a#/../\\evil.example", "/a#/../../\\evil.example/x", "/#/..\\evil.example/../\\evil.example"} {
		req := httptest.NewRequest("POST", "/api/v0/login", nil)
		req.Form = url.Values{"login_destination": {d}}
		dest := getLoginDestination(req)
		rr := httptest.NewRecorder()
		http.Redirect(rr, req, dest, 302)
		loc := rr.Header().Get("Location")
		if strings.HasPrefix(loc, "/\\") || strings.HasPrefix(loc, "//") {
			t.Errorf("destination %q is emitted as Location %q, which a browser resolves off-origin", d, loc)
		}
	}
	req := httptest.NewRequest("POST", "/api/v0/login", nil)
	req.Form = url.Values{"login_destination": {"/idp/oauth2/authorize?x=a\\b#frag"}}
	if got := getLoginDestination(req); got != "/idp/oauth2/authorize?x=a\\b#frag" {
		t.Errorf("a backslash in the query must stay allowed, got %q", got)
	}
}
