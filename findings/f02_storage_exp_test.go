package main

// Triage demonstration for finding F2 (C04, C07): the signed expiry of a storage record was never checked;
// only the unsigned expiration_epoch column was.
import (
	"os"
	"testing"
	"time"
)

func TestZZF02StorageSignedExpiry(t *testing.T) {
	state, passwdFile, err := setupValidRuntimeStateSigner(t)
	if err != nil {
		t.Fatal(err)
	}
	defer os.Remove(passwdFile.Name())
	dir, err := os.MkdirTemp("", "zzf02")
	if err != nil {
		t.Fatal(err)
	}
	defer os.RemoveAll(dir)
	state.Config.Base.DataDirectory = dir
	if err := initDB(state); err != nil {
		t.Fatal(err)
	}
	defer close(state.dbDone)
	// record whose SIGNED expiry is in the past
	past := time.Now().Add(-time.Hour).Unix()
	if err := state.UpsertSigned("alice", 1, past, "secret-hash"); err != nil {
		t.Fatal(err)
	}
	// the unsigned column is altered to a future value (tampering / inconsistent write)
	if _, err := state.db.Exec("update expiring_signed_user_data set expiration_epoch = ? where username = ?",
		time.Now().Add(time.Hour).Unix(), "alice"); err != nil {
		t.Fatal(err)
	}
	ok, data, err := state.GetSigned("alice", 1)
	if ok {
		t.Fatalf("record honoured after its signed expiry: data=%q err=%v", data, err)
	}
}
